import GlueVerif.Model.ArrayUtil
/-!
L5 model for C14: derived attributes.

* strided arrays over an arbitrary value type (`SArr`: shape, integer strides, base offset, buffer),
  numpy basic views, `unbroadcast`, `np.broadcast_to`, `np.broadcast_arrays`, fresh elementwise results;
* `BinaryComponentLink.compute` and `ComponentLink.compute` **as coded** (fetch with view,
  unbroadcast, broadcast together, apply, repair shape, broadcast to the "original shape");
* expression trees over component ids, constants and an arbitrary binary operator;
* the component table of a `Data` object (ordered dict), `Data.__getitem__` on derived components,
  `remove_component` with its recursion as coded, `reorder_components` as coded (the table order is
  the real component order), `update_id` as coded + the F14 repair; the public calls as repaired by
  F20 / F21 / F22 (`removeCall`, `addComp`, `updateIdCall`: `none` = the `ValueError` raised before
  anything changes) and the call state machine `implCall` / `specCall` of the history family;
* the text-expression grammar of the `ParsedCommand` family (tokens, printer, parser, evaluator).

Core Lean only.  `Impl` = the functions named after the Python code, `Spec` = `spec*`.
-/
namespace GlueVerif.Derived
open GlueVerif.ArrayUtil (ViewItem sliceIndices rangeLen allIndices)

/-! ## strided arrays -/

/-- A numpy array: `a[idx] = buf[base + Σ idx_i * strides_i]`.  Strides are in elements and may be
zero (broadcast axis) or negative (reversed view). -/
structure SArr (α : Type) where
  shape   : List Nat
  strides : List Int
  base    : Int
  buf     : Int → α

/-- Linear offset of an integer index tuple. -/
def ioffsetI : List Int → List Int → Int
  | i :: is, s :: ss => i * s + ioffsetI is ss
  | _, _ => 0

/-- Linear offset of a natural index tuple. -/
def ioffset : List Nat → List Int → Int
  | i :: is, s :: ss => (i : Int) * s + ioffset is ss
  | _, _ => 0

def SArr.at (a : SArr α) (idx : List Nat) : α := a.buf (a.base + ioffset idx a.strides)
def SArr.atI (a : SArr α) (idx : List Int) : α := a.buf (a.base + ioffsetI idx a.strides)

/-- What `data[cid, view]` returns: a Python / numpy scalar (also used for 0-d arrays) or an array. -/
inductive Val (α : Type) where
  | scalar (c : α)
  | arr (a : SArr α)

def Val.get : Val α → List Nat → α
  | .scalar c, _ => c
  | .arr a, idx => a.at idx

/-- `glue.utils.unbroadcast`: axes with stride 0 get length 1 (strides, base, buffer unchanged). -/
def unbShape : List Nat → List Int → List Nat
  | n :: ns, s :: ss => (if s == 0 then 1 else n) :: unbShape ns ss
  | _, _ => []

/-- As repaired (F14c) an empty array is returned unchanged: giving its broadcast axes length 1
would make a non-empty array over memory the empty view does not cover. -/
def unbroadcast (a : SArr α) : SArr α :=
  if a.shape.any (· == 0) then a else { a with shape := unbShape a.shape a.strides }

/-- Admissibility test of `np.broadcast_to(a, target)` for equal ndim. -/
def bcOk : List Nat → List Nat → Bool
  | n :: ns, t :: ts => (n == t || n == 1) && bcOk ns ts
  | [], [] => true
  | _, _ => false

/-- Strides of `np.broadcast_to(a, target)`: stretched length-1 axes get stride 0. -/
def bcStrides : List Nat → List Int → List Nat → List Int
  | n :: ns, s :: ss, t :: ts => (if n == 1 && t != 1 then 0 else s) :: bcStrides ns ss ts
  | _, _, _ => []

def broadcastTo (a : SArr α) (target : List Nat) : Option (SArr α) :=
  if bcOk a.shape target then
    some { a with shape := target, strides := bcStrides a.shape a.strides target }
  else none

/-- `np.broadcast_shapes` for two shapes of equal ndim (`none` = ValueError). -/
def bshape : List Nat → List Nat → Option (List Nat)
  | a :: as, b :: bs =>
    match bshape as bs with
    | none => none
    | some r =>
      if a == b then some (a :: r) else if a == 1 then some (b :: r)
      else if b == 1 then some (a :: r) else none
  | [], [] => some []
  | _, _ => none

/-- `np.broadcast_shapes` for a non-empty list of shapes. -/
def bshapeAll : List (List Nat) → Option (List Nat)
  | [] => none
  | [s] => some s
  | s :: rest => (bshapeAll rest).bind (bshape s)

def prodN : List Nat → Nat
  | [] => 1
  | n :: ns => n * prodN ns

/-- C-contiguous strides of a shape. -/
def contig : List Nat → List Int
  | [] => []
  | _ :: ns => (prodN ns : Int) :: contig ns

/-- Index tuple of the `k`-th element of a C-contiguous array. -/
def unravel : Nat → List Nat → List Nat
  | _, [] => []
  | k, _ :: ns => k / prodN ns :: unravel (k % prodN ns) ns

/-- The new C-contiguous array a numpy ufunc / elementwise function returns for inputs that all
have shape `B`: element `idx` is `f [a₁[idx], …, aₙ[idx]]`. -/
def freshN (f : List α → α) (args : List (SArr α)) (B : List Nat) : SArr α :=
  { shape := B, strides := contig B, base := 0,
    buf := fun k => f (args.map fun a => a.at (unravel k.toNat B)) }

def fresh2 (op : α → α → α) (l r : SArr α) (B : List Nat) : SArr α :=
  { shape := B, strides := contig B, base := 0,
    buf := fun k => op (l.at (unravel k.toNat B)) (r.at (unravel k.toNat B)) }

/-- A Python number broadcast to shape `B` by `np.broadcast_arrays` (all strides 0). -/
def fullOf (c : α) (B : List Nat) : SArr α :=
  { shape := B, strides := B.map fun _ => 0, base := 0, buf := fun _ => c }

/-! ## `BinaryComponentLink.compute` as coded -/

/-- `left`/`right` are the already fetched operands (`data[self._left, view]`, or the number).
`original_shape` is the shape of the **last** array operand; each array operand is unbroadcast;
both are broadcast together; the operator is applied; the result is broadcast to
`original_shape`.  `none` = numpy raises (shapes cannot be broadcast). -/
def binaryCompute (op : α → α → α) : Val α → Val α → Option (Val α)
  | .scalar c, .scalar d => some (.scalar (op c d))
  | .arr l, .scalar d =>
    let orig := l.shape
    let l' := unbroadcast l
    let B := l'.shape
    (broadcastTo (fresh2 op l' (fullOf d B) B) orig).map .arr
  | .scalar c, .arr r =>
    let orig := r.shape
    let r' := unbroadcast r
    let B := r'.shape
    (broadcastTo (fresh2 op (fullOf c B) r' B) orig).map .arr
  | .arr l, .arr r =>
    let orig := r.shape
    let l' := unbroadcast l
    let r' := unbroadcast r
    match bshape l'.shape r'.shape with
    | none => none
    | some B =>
      match broadcastTo l' B, broadcastTo r' B with
      | some lb, some rb => (broadcastTo (fresh2 op lb rb B) orig).map .arr
      | _, _ => none

/-! ## `ComponentLink.compute` as coded (user function of n inputs) -/

def allArr : List (Val α) → Option (List (SArr α))
  | [] => some []
  | .arr a :: vs => (allArr vs).map (a :: ·)
  | .scalar _ :: _ => none

def allScalar : List (Val α) → Option (List α)
  | [] => some []
  | .scalar c :: vs => (allScalar vs).map (c :: ·)
  | .arr _ :: _ => none

def mapM' (f : β → Option γ) : List β → Option (List γ)
  | [] => some []
  | x :: xs => match f x, mapM' f xs with
    | some y, some ys => some (y :: ys)
    | _, _ => none

/-- `args` = `[data[f, view] for f in self._from]`.  `original_shape = args[0].shape`; every
argument is unbroadcast; `np.broadcast_arrays`; `using(*args)` — an elementwise function, which
may return its result ravelled (`ravel`), in which case `result.shape = args[0].shape` repairs it;
finally `np.broadcast_to(result, original_shape)`.  0-d views give all-scalar arguments. -/
def linkCompute (f : List α → α) (ravel : Bool) (args : List (Val α)) : Option (Val α) :=
  match args with
  | [] => none                                  -- `args[0]` raises IndexError
  | .scalar c :: rest =>
    (allScalar rest).map fun cs => .scalar (f (c :: cs))
  | .arr a0 :: rest =>
    match allArr rest with
    | none => none
    | some as =>
      let orig := a0.shape
      let us := (a0 :: as).map unbroadcast
      match bshapeAll (us.map (·.shape)) with
      | none => none
      | some B =>
        match mapM' (broadcastTo · B) us with
        | none => none
        | some bs =>
          let res := freshN f bs B
          -- a ravelled result has shape `[prod B]`; the repair re-installs `B` on the same buffer
          let res := if ravel then { res with shape := [prodN B], strides := [1] } else res
          let res := if res.shape != B then { res with shape := B, strides := contig B } else res
          (broadcastTo res orig).map .arr

/-! ## numpy basic views -/

/-- One axis of a normalised view. -/
inductive NAxis where
  | idx (i : Int)                        -- integer index, already non-negative
  | sl (b : Int) (n : Nat) (st : Int)    -- `range(b, b + n*st, st)`
  deriving Repr, BEq, DecidableEq

/-- Normalise a Python view against a shape (`slice.indices`, negative integers); axes not
mentioned by the view are kept whole.  `none` = IndexError / ValueError. -/
def normView : List Nat → List ViewItem → Option (List NAxis)
  | [], [] => some []
  | [], _ :: _ => none
  | h :: hs, [] => (normView hs []).map (NAxis.sl 0 h 1 :: ·)
  | h :: hs, .int i :: vs =>
    if (-(h : Int)) ≤ i ∧ i < h then
      (normView hs vs).map (NAxis.idx (if i < 0 then i + h else i) :: ·)
    else none
  | h :: hs, .slice a b c :: vs =>
    match sliceIndices a b c h with
    | none => none
    | some (b', e', st') =>
      let n := if st' > 0 then rangeLen b' e' st'.toNat else rangeLen e' b' (-st').toNat
      (normView hs vs).map (NAxis.sl b' n st' :: ·)

def viewShapeN : List NAxis → List Nat
  | [] => []
  | .idx _ :: vs => viewShapeN vs
  | .sl _ n _ :: vs => n :: viewShapeN vs

/-- Data index addressed by result index `idx` under a normalised view. -/
def vmapN : List NAxis → List Nat → List Int
  | [], _ => []
  | .idx i :: vs, idx => i :: vmapN vs idx
  | .sl b _ st :: vs, j :: idx => (b + (j : Int) * st) :: vmapN vs idx
  | .sl b _ _ :: vs, [] => b :: vmapN vs []

def viewStrides : List NAxis → List Int → List Int
  | .idx _ :: vs, _ :: ss => viewStrides vs ss
  | .sl _ _ st :: vs, s :: ss => (s * st) :: viewStrides vs ss
  | _, _ => []

def viewBase : List NAxis → List Int → Int
  | .idx i :: vs, s :: ss => i * s + viewBase vs ss
  | .sl b _ _ :: vs, s :: ss => b * s + viewBase vs ss
  | _, _ => 0

/-- `a[view]` for a basic view (no copy: same buffer, new base / shape / strides). -/
def applyViewN (a : SArr α) (v : List NAxis) : SArr α :=
  { shape := viewShapeN v, strides := viewStrides v a.strides,
    base := a.base + viewBase v a.strides, buf := a.buf }

/-- The whole array as a view (`normView D []`). -/
def fullView (D : List Nat) : List NAxis := D.map fun h => NAxis.sl 0 h 1

/-- numpy returns a scalar when every axis is indexed by an integer. -/
def toVal (a : SArr α) : Val α :=
  match a.shape with
  | [] => .scalar (a.buf a.base)
  | _ => .arr a

/-! ## expression trees (`BinaryComponentLink`) -/

inductive Expr (κ ω α : Type) where
  | const (c : α)
  | cid (k : κ)
  | bin (o : ω) (l r : Expr κ ω α)
  deriving BEq, Repr

namespace Expr

/-- `get_from_ids()`: the ids of the leaves, left to right (with repetitions). -/
def fromIds : Expr κ ω α → List κ
  | .const _ => []
  | .cid k => [k]
  | .bin _ l r => l.fromIds ++ r.fromIds

/-- `replace_ids(old, new)`. -/
def replace [DecidableEq κ] (old new : κ) : Expr κ ω α → Expr κ ω α
  | .const c => .const c
  | .cid k => .cid (if k = old then new else k)
  | .bin o l r => .bin o (l.replace old new) (r.replace old new)

/-- **Spec**: the defining expression applied to one element. -/
def evalPt (opf : ω → α → α → α) (leaf : κ → Option α) : Expr κ ω α → Option α
  | .const c => some c
  | .cid k => leaf k
  | .bin o l r =>
    match evalPt opf leaf l, evalPt opf leaf r with
    | some a, some b => some (opf o a b)
    | _, _ => none

/-- Total version for environments in which every leaf has a value. -/
def evalPtT (opf : ω → α → α → α) (leaf : κ → α) : Expr κ ω α → α
  | .const c => c
  | .cid k => leaf k
  | .bin o l r => opf o (evalPtT opf leaf l) (evalPtT opf leaf r)

end Expr

inductive Err where
  | incompatible     -- IncompatibleAttribute: id not in the dataset
  | index            -- IndexError / ValueError from the view
  | shape            -- numpy broadcasting error
  | recursion        -- out of fuel (cyclic definitions)
  deriving Repr, BEq, DecidableEq

/-- **Impl**: `BinaryComponentLink.compute(data, view)` given `get k = data[k, view]`. -/
def Expr.evalWith (opf : ω → α → α → α) (get : κ → Except Err (Val α)) :
    Expr κ ω α → Except Err (Val α)
  | .const c => .ok (.scalar c)
  | .cid k => get k
  | .bin o l r =>
    match Expr.evalWith opf get l, Expr.evalWith opf get r with
    | .ok a, .ok b =>
      match binaryCompute (opf o) a b with
      | some v => .ok v
      | none => .error .shape
    | .error e, _ => .error e
    | _, .error e => .error e

/-! ## text expressions (`ParsedCommand`) -/

/-- The grammar `num | {tag} | unary - | + - * / ** | parens`; `bin` carries the operator tag. -/
inductive PExpr (κ ω α : Type) where
  | num (c : α)
  | ref (k : κ)
  | neg (e : PExpr κ ω α)
  | bin (o : ω) (l r : PExpr κ ω α)
  deriving BEq, Repr

namespace PExpr

def refs : PExpr κ ω α → List κ
  | .num _ => []
  | .ref k => [k]
  | .neg e => e.refs
  | .bin _ l r => l.refs ++ r.refs

def replace [DecidableEq κ] (old new : κ) : PExpr κ ω α → PExpr κ ω α
  | .num c => .num c
  | .ref k => .ref (if k = old then new else k)
  | .neg e => .neg (e.replace old new)
  | .bin o l r => .bin o (l.replace old new) (r.replace old new)

def evalPt (opf : ω → α → α → α) (negf : α → α) (leaf : κ → Option α) : PExpr κ ω α → Option α
  | .num c => some c
  | .ref k => leaf k
  | .neg e => (evalPt opf negf leaf e).map negf
  | .bin o l r =>
    match evalPt opf negf leaf l, evalPt opf negf leaf r with
    | some a, some b => some (opf o a b)
    | _, _ => none

end PExpr

/-- numpy arithmetic between two operands that are Python numbers or arrays of one common shape:
a fresh array of that shape (no unbroadcasting is involved in the `eval`-ed command). -/
def npBinary (op : α → α → α) : Val α → Val α → Option (Val α)
  | .scalar c, .scalar d => some (.scalar (op c d))
  | .arr l, .scalar d => some (.arr (fresh2 op l (fullOf d l.shape) l.shape))
  | .scalar c, .arr r => some (.arr (fresh2 op (fullOf c r.shape) r r.shape))
  | .arr l, .arr r =>
    if l.shape == r.shape then some (.arr (fresh2 op l r l.shape)) else none

def fresh1 (f : α → α) (a : SArr α) : SArr α :=
  { shape := a.shape, strides := contig a.shape, base := 0,
    buf := fun k => f (a.at (unravel k.toNat a.shape)) }

def npUnary (f : α → α) : Val α → Val α
  | .scalar c => .scalar (f c)
  | .arr a => .arr (fresh1 f a)

/-- `eval` of the dereferenced command. -/
def PExpr.evalWith (opf : ω → α → α → α) (negf : α → α) (get : κ → Except Err (Val α)) :
    PExpr κ ω α → Except Err (Val α)
  | .num c => .ok (.scalar c)
  | .ref k => get k
  | .neg e =>
    match PExpr.evalWith opf negf get e with
    | .ok a => .ok (npUnary negf a)
    | .error e => .error e
  | .bin o l r =>
    match PExpr.evalWith opf negf get l, PExpr.evalWith opf negf get r with
    | .ok a, .ok b =>
      match npBinary (opf o) a b with
      | some v => .ok v
      | none => .error .shape
    | .error e, _ => .error e
    | _, .error e => .error e

/-! ## the component table of a `Data` object -/

inductive Link (κ ω α : Type) where
  | binary (e : Expr κ ω α)                          -- BinaryComponentLink
  | func (froms : List κ) (f : ω) (ravel : Bool)    -- ComponentLink with a user function
  | parsed (p : PExpr κ ω α)                         -- ParsedComponentLink

def Link.fromIds : Link κ ω α → List κ
  | .binary e => e.fromIds
  | .func fs _ _ => fs
  | .parsed p => p.refs

def Link.replace [DecidableEq κ] (old new : κ) : Link κ ω α → Link κ ω α
  | .binary e => .binary (e.replace old new)
  | .func fs f r => .func (fs.map fun k => if k = old then new else k) f r
  | .parsed p => .parsed (p.replace old new)

inductive Comp (κ ω α : Type) where
  /-- `Component` holding an array of the data shape.  `coord = true`: a `CoordinateComponent` (pixel
  or world axis, created and managed by the data set itself); `false`: a stored (main) component.
  The flag does not influence any value; it decides which public calls the data set refuses. -/
  | prim (a : SArr α) (coord : Bool)
  | derived (l : Link κ ω α)         -- DerivedComponent

/-- `Data._components`: an ordered dict (keys unique, insertion order). -/
abbrev Table (κ ω α : Type) := List (κ × Comp κ ω α)

section table
variable {κ ω α : Type} [DecidableEq κ]

def Table.keys (t : Table κ ω α) : List κ := t.map (·.1)

def Table.find (t : Table κ ω α) (k : κ) : Option (Comp κ ω α) :=
  match t with
  | [] => none
  | (k', c) :: rest => if k' = k then some c else Table.find rest k

/-- `self._components[k] = c` on an ordered dict: overwrite in place or append. -/
def Table.set (t : Table κ ω α) (k : κ) (c : Comp κ ω α) : Table κ ω α :=
  match t with
  | [] => [(k, c)]
  | (k', c') :: rest => if k' = k then (k, c) :: rest else (k', c') :: Table.set rest k c

/-- `OrderedDict(pairs)`. -/
def Table.ofPairs (ps : List (κ × Comp κ ω α)) : Table κ ω α :=
  ps.foldl (fun t p => Table.set t p.1 p.2) []

def Comp.fromIds : Comp κ ω α → Option (List κ)
  | .prim _ _ => none
  | .derived l => some l.fromIds

/-- Operator / function interpretation and the view under which values are requested. -/
structure Interp (ω α : Type) where
  opf  : ω → α → α → α
  fnf  : ω → List α → α
  negf : α → α

def sequenceE : List (Except Err β) → Except Err (List β)
  | [] => .ok []
  | .ok x :: rest => match sequenceE rest with | .ok xs => .ok (x :: xs) | .error e => .error e
  | .error e :: _ => .error e

/-- `ParsedCommand.evaluate`'s last step: a scalar result is expanded with `np.ones(shape) * result`
(modelled as a constant array).  `shape` is `view_shape(data.shape, view)` in the repaired code
(F14b) and was `data.shape` — regardless of the view — in the code as found. -/
def parsedFinish (shape : List Nat) (v : Val α) : Val α :=
  match v with
  | .scalar c => toVal (fullOf c shape)
  | .arr a => .arr a

/-- **Impl**: `data[k, view]` (`Data.get_data` → `Component.__getitem__` → `link.compute`).
`fuel` bounds the nesting of derived components (Python recurses; cycles never return).
`scalarShape` is the shape used by the scalar rule of `ParsedCommand.evaluate`. -/
def getData (I : Interp ω α) (v : List NAxis) (scalarShape : List Nat) :
    Nat → Table κ ω α → κ → Except Err (Val α)
  | 0, _, _ => .error .recursion
  | fuel + 1, t, k =>
    match t.find k with
    | none => .error .incompatible
    | some (.prim a _) => .ok (toVal (applyViewN a v))
    | some (.derived (.binary e)) => e.evalWith I.opf (getData I v scalarShape fuel t)
    | some (.derived (.func fs f ravel)) =>
      match sequenceE (fs.map (getData I v scalarShape fuel t)) with
      | .error e => .error e
      | .ok args =>
        match linkCompute (I.fnf f) ravel args with
        | some r => .ok r
        | none => .error .shape
    | some (.derived (.parsed p)) =>
      match p.evalWith I.opf I.negf (getData I v scalarShape fuel t) with
      | .ok r => .ok (parsedFinish scalarShape r)
      | .error e => .error e

/-- **Spec**: the value of component `k` at data index `idx`: stored values are read off the
array, derived ones are their defining expression applied to the values of their inputs at the
same index. -/
def specAt (I : Interp ω α) : Nat → Table κ ω α → List Int → κ → Option α
  | 0, _, _, _ => none
  | fuel + 1, t, idx, k =>
    match t.find k with
    | none => none
    | some (.prim a _) => some (a.atI idx)
    | some (.derived (.binary e)) => e.evalPt I.opf (specAt I fuel t idx)
    | some (.derived (.func fs f _)) =>
      (mapM' (specAt I fuel t idx) fs).map (I.fnf f)
    | some (.derived (.parsed p)) => p.evalPt I.opf I.negf (specAt I fuel t idx)

/-- Every identifier needed to evaluate `k` resolves within `fuel` levels of nesting (decidable
hypothesis of `getitem_elementwise`; false on cyclic definitions and dangling references). -/
def refsOk : Nat → Table κ ω α → κ → Bool
  | 0, _, _ => false
  | fuel + 1, t, k =>
    match t.find k with
    | none => false
    | some (.prim _ _) => true
    | some (.derived l) => l.fromIds.all (refsOk fuel t)

/-! ### `remove_component` -/

def Table.erase (t : Table κ ω α) (k : κ) : Table κ ω α := t.filter (fun p => !(p.1 == k))

/-- `[cid for cid in self.derived_components if component_id in comp.link.get_from_ids()]`. -/
def dependOn (t : Table κ ω α) (k : κ) : List κ :=
  (t.filter fun p => match p.2.fromIds with | some fs => fs.contains k | none => false).map (·.1)

/-- **Impl**: `Data.remove_component` — pop the component, collect the derived components that
read it *from the table as it is now*, and remove each of them recursively (depth first). -/
def removeComp : Nat → Table κ ω α → κ → Table κ ω α
  | 0, t, _ => t
  | fuel + 1, t, k =>
    if t.keys.contains k then
      let t1 := t.erase k
      (dependOn t1 k).foldl (fun acc d => removeComp fuel acc d) t1
    else t

/-- One round of the dependency closure: add every derived component reading a member of `s`. -/
def growDeps (t : Table κ ω α) (s : List κ) : List κ :=
  s ++ (t.filter fun p => !(s.contains p.1) &&
    (match p.2.fromIds with | some fs => fs.any s.contains | none => false)).map (·.1)

def closureIter (t : Table κ ω α) : Nat → List κ → List κ
  | 0, s => s
  | n + 1, s => closureIter t n (growDeps t s)

/-- **Spec**: `{k} ∪` everything that depends on `k` directly or transitively. -/
def depClosure (t : Table κ ω α) (k : κ) : List κ := closureIter t t.length [k]

/-- **Spec** of removal: exactly the closure disappears; the survivors keep their order (and
their components). -/
def specRemove (t : Table κ ω α) (k : κ) (outKeys : List κ) : Bool :=
  if t.keys.contains k then
    outKeys == (t.keys.filter fun x => !((depClosure t k).contains x))
  else outKeys == t.keys

/-! ### `reorder_components` -/

/-- `(key, self._components[key]) for key in component_ids` (a key that is not in the table would
raise `KeyError`; the validation of `reorder_components` excludes it). -/
def Table.pick (t : Table κ ω α) (ks : List κ) : List (κ × Comp κ ω α) :=
  ks.filterMap fun k => (t.find k).map fun c => (k, c)

/-- **Impl**: `Data.reorder_components(component_ids)` as coded: `ValueError` (`none`) unless the
list has as many entries as the table and the same *set* of identifiers; nothing happens when it is
the current order; otherwise `self._components = OrderedDict((key, self._components[key]) for key
in component_ids)`.  The table order after this call is the order every later
`derived_components` / `remove_component` / `update_id` iterates in. -/
def reorderComps (t : Table κ ω α) (ks : List κ) : Option (Table κ ω α) :=
  if ks.length ≠ t.length then none
  else if !(ks.all t.keys.contains && t.keys.all ks.contains) then none
  else if ks = t.keys then some t
  else some (Table.ofPairs (t.pick ks))

/-- **Spec** of `reorder_components(ks)`: when `ks` is a rearrangement of the identifiers of the
dataset, the same components listed in the order `ks`; `ValueError` otherwise. -/
def specReorder (t : Table κ ω α) (ks : List κ) : Option (Table κ ω α) :=
  if ks.isPerm t.keys then some (t.pick ks) else none

/-! ### `update_id` -/

/-- **Impl**: the body of `Data.update_id(old, new)` (behind the refusal test of `updateIdCall`):
the key is replaced in place through `OrderedDict(...)`; as repaired (F14) every derived component's
link has `old` replaced by `new`.  `repaired = false` is the code as found. -/
def updateId (repaired : Bool) (t : Table κ ω α) (old new : κ) : Table κ ω α :=
  if new = old then t else
  if t.keys.contains old then
    let t1 := Table.ofPairs (t.map fun p => if p.1 = old then (new, p.2) else p)
    if repaired then
      t1.map fun p => match p.2 with
        | .derived l => (p.1, .derived (l.replace old new))
        | c => (p.1, c)
    else t1
  else t

def Comp.rename (old new : κ) : Comp κ ω α → Comp κ ω α
  | .derived l => .derived (l.replace old new)
  | c => c

/-- **Spec** of `update_id(old, new)`: the identifier is renamed everywhere — as a key (in place)
and inside every defining expression — and nothing else changes. -/
def specRename (old new : κ) (t : Table κ ω α) : Table κ ω α :=
  t.map fun p => (if p.1 = old then new else p.1, p.2.rename old new)

/-! ### the public calls as repaired (F20, F21, F22): refusals

`Data.remove_component`, `Data.add_component` and `Data.update_id` raise `ValueError` **before
changing anything** on three constructs that used to corrupt the data set.  A refused call is
`none`; the data set after it is the data set before it (`Table.after`). -/

def Comp.isCoord : Comp κ ω α → Bool
  | .prim _ co => co
  | .derived _ => false

def Comp.isDerived : Comp κ ω α → Bool
  | .prim _ _ => false
  | .derived _ => true

/-- **Impl**: the public `Data.remove_component(k)` as repaired (F20): `ValueError` when `k` names a
pixel / world `CoordinateComponent` (they are managed by the data set itself); otherwise the
recursion `removeComp` (`_remove_component`); an identifier that is not in the data set is a no-op. -/
def removeCall (fuel : Nat) (t : Table κ ω α) (k : κ) : Option (Table κ ω α) :=
  match t.find k with
  | some c => if c.isCoord then none else some (removeComp fuel t k)
  | none => some (removeComp fuel t k)

/-- The kind test of `add_component` (F21) for an identifier that is in use: no replacement of or
by a coordinate component, and no derived ↔ regular change. -/
def kindClash (cur new : Comp κ ω α) : Bool :=
  cur.isCoord || new.isCoord || (cur.isDerived != new.isDerived)

/-- **Impl**: `Data.add_component(c, k)` as repaired (F21): `self._components[k] = c` — overwrite in
place or append —, refused with `ValueError` when `k` is in use for a component of another kind. -/
def addComp (t : Table κ ω α) (k : κ) (c : Comp κ ω α) : Option (Table κ ω α) :=
  match t.find k with
  | some cur => if kindClash cur c then none else some (t.set k c)
  | none => some (t.set k c)

/-- **Impl**: `Data.add_component_link(link, k)`: every input must already be a component of this
data set (`ValueError` otherwise), then `add_component(DerivedComponent(self, link), k)`. -/
def addLink (t : Table κ ω α) (k : κ) (c : Comp κ ω α) : Option (Table κ ω α) :=
  match c.fromIds with
  | some fs => if fs.all t.keys.contains then addComp t k c else none
  | none => addComp t k c

/-- **Impl**: `Data.update_id(old, new)` as repaired (F14 + F22): nothing happens for `new is old`;
`ValueError` when `new` is already a component of the data set (whether or not `old` is one);
otherwise the rebuild `updateId`. -/
def updateIdCall (t : Table κ ω α) (old new : κ) : Option (Table κ ω α) :=
  if new = old then some t
  else if t.keys.contains new then none
  else some (updateId true t old new)

/-- The data set after a call: a refused call leaves it as it was. -/
def Table.after (t : Table κ ω α) (r : Option (Table κ ω α)) : Table κ ω α :=
  match r with
  | some t' => t'
  | none => t

/-- The calls of a history (the `hist` family of the driver executes exactly these). -/
inductive Call (κ ω α : Type) where
  | add (k : κ) (c : Comp κ ω α)       -- add_component (stored) / add_component_link (inputs checked)
  | addRaw (k : κ) (c : Comp κ ω α)    -- add_component(DerivedComponent(data, link), cid): no input check
  | remove (k : κ)
  | update (old new : κ)
  | reorder (pref : List κ) (exact : Bool)   -- reorder_components(pref [+ the other ids in table order])

/-- The argument list of `reorder_components`: the listed identifiers, followed (unless `exact`)
by the identifiers of the table that are not listed, in table order. -/
def reorderArg (t : Table κ ω α) (pref : List κ) (exact : Bool) : List κ :=
  if exact then pref else pref ++ t.keys.filter fun k => !(pref.contains k)

/-- **Impl** of one call: `none` = the call raises `ValueError`. -/
def implCall (t : Table κ ω α) : Call κ ω α → Option (Table κ ω α)
  | .add k c => addLink t k c
  | .addRaw k c => addComp t k c
  | .remove k => removeCall (t.length + 1) t k
  | .update o n => updateIdCall t o n
  | .reorder pref ex => reorderComps t (reorderArg t pref ex)

/-- **Spec** of storing a component under an identifier: a new identifier is appended, an
identifier in use keeps its place and gets the new component — refused when that would replace a
coordinate component, install one, or turn a derived component into a regular one or back. -/
def specSet (t : Table κ ω α) (k : κ) (c : Comp κ ω α) : Option (Table κ ω α) :=
  match t.find k with
  | some cur => if kindClash cur c then none else some (t.set k c)
  | none => some (t.set k c)

/-- **Spec** of one call.  Adding sets the entry (refused on a missing input of a checked link, or
on an identifier in use for another kind of component); removal deletes exactly the dependency
closure (refused for a coordinate component, nothing for an unknown identifier); replacing an
identifier renames it everywhere — keys and defining expressions — and changes nothing else
(refused when the new identifier already names a component); reordering lists the same components
in the requested order (refused unless the list is a rearrangement of the identifiers). -/
def specCall (t : Table κ ω α) : Call κ ω α → Option (Table κ ω α)
  | .add k c =>
    match c.fromIds with
    | some fs => if fs.all t.keys.contains then specSet t k c else none
    | none => specSet t k c
  | .addRaw k c => specSet t k c
  | .remove k =>
    match t.find k with
    | some c =>
      if c.isCoord then none
      else some (t.filter fun p => !((depClosure t k).contains p.1))
    | none => some t
  | .update o n =>
    if o = n then some t
    else if t.keys.contains n then none
    else if t.keys.contains o then some (specRename o n t) else some t
  | .reorder pref ex => specReorder t (reorderArg t pref ex)

end table

/-! ## the text grammar of the `ParsedCommand` family -/

inductive BinOp where
  | add | sub | mul | div | pow
  deriving Repr, BEq, DecidableEq

inductive Tok (κ α : Type) where
  | num (c : α)
  | tag (k : κ)
  | op (o : BinOp)       -- `+ - * / **` (`-` is also the unary minus)
  | lp
  | rp
  deriving Repr, BEq

abbrev TExpr (κ α : Type) := PExpr κ BinOp α

namespace Grammar
variable {κ α : Type}

/-! Printer with the minimal parentheses Python's grammar needs:
`expr := term (('+'|'-') term)*`, `term := factor (('*'|'/') factor)*`,
`factor := '-' factor | power`, `power := atom ['**' factor]`, `atom := num | {tag} | '(' expr ')'`. -/

/-- Grammar level at which a node can appear without parentheses:
0 = expr, 1 = term, 2 = factor, 3 = power, 4 = atom. -/
def prec : TExpr κ α → Nat
  | .bin .add _ _ => 0
  | .bin .sub _ _ => 0
  | .bin .mul _ _ => 1
  | .bin .div _ _ => 1
  | .neg _ => 2
  | .bin .pow _ _ => 3
  | .num _ => 4
  | .ref _ => 4

/-- Parenthesise `s` (the text of `e`) when `e` may not appear at grammar level `lvl`. -/
def wrap (lvl : Nat) (e : TExpr κ α) (s : List (Tok κ α)) : List (Tok κ α) :=
  if prec e < lvl then [.lp] ++ s ++ [.rp] else s

def print : TExpr κ α → List (Tok κ α)
  | .num c => [.num c]
  | .ref k => [.tag k]
  | .neg e => .op .sub :: wrap 2 e (print e)
  | .bin .add l r => wrap 0 l (print l) ++ [.op .add] ++ wrap 1 r (print r)
  | .bin .sub l r => wrap 0 l (print l) ++ [.op .sub] ++ wrap 1 r (print r)
  | .bin .mul l r => wrap 1 l (print l) ++ [.op .mul] ++ wrap 2 r (print r)
  | .bin .div l r => wrap 1 l (print l) ++ [.op .div] ++ wrap 2 r (print r)
  | .bin .pow l r => wrap 4 l (print l) ++ [.op .pow] ++ wrap 2 r (print r)

/-! Recursive-descent parser for the same grammar (fuel = recursion depth). -/
mutual
def pExpr : Nat → List (Tok κ α) → Option (TExpr κ α × List (Tok κ α))
  | 0, _ => none
  | f + 1, ts =>
    match pTerm f ts with
    | some (t, rest) => pExprLoop f t rest
    | none => none
def pExprLoop : Nat → TExpr κ α → List (Tok κ α) → Option (TExpr κ α × List (Tok κ α))
  | 0, _, _ => none
  | f + 1, acc, .op .add :: ts =>
    match pTerm f ts with
    | some (t, rest) => pExprLoop f (.bin .add acc t) rest
    | none => none
  | f + 1, acc, .op .sub :: ts =>
    match pTerm f ts with
    | some (t, rest) => pExprLoop f (.bin .sub acc t) rest
    | none => none
  | _ + 1, acc, ts => some (acc, ts)
def pTerm : Nat → List (Tok κ α) → Option (TExpr κ α × List (Tok κ α))
  | 0, _ => none
  | f + 1, ts =>
    match pFactor f ts with
    | some (t, rest) => pTermLoop f t rest
    | none => none
def pTermLoop : Nat → TExpr κ α → List (Tok κ α) → Option (TExpr κ α × List (Tok κ α))
  | 0, _, _ => none
  | f + 1, acc, .op .mul :: ts =>
    match pFactor f ts with
    | some (t, rest) => pTermLoop f (.bin .mul acc t) rest
    | none => none
  | f + 1, acc, .op .div :: ts =>
    match pFactor f ts with
    | some (t, rest) => pTermLoop f (.bin .div acc t) rest
    | none => none
  | _ + 1, acc, ts => some (acc, ts)
def pFactor : Nat → List (Tok κ α) → Option (TExpr κ α × List (Tok κ α))
  | 0, _ => none
  | f + 1, .op .sub :: ts =>
    match pFactor f ts with
    | some (e, rest) => some (.neg e, rest)
    | none => none
  | f + 1, ts => pPower f ts
def pPower : Nat → List (Tok κ α) → Option (TExpr κ α × List (Tok κ α))
  | 0, _ => none
  | f + 1, ts =>
    match pAtom f ts with
    | some (a, .op .pow :: rest) =>
      match pFactor f rest with
      | some (e, rest') => some (.bin .pow a e, rest')
      | none => none
    | some (a, rest) => some (a, rest)
    | none => none
def pAtom : Nat → List (Tok κ α) → Option (TExpr κ α × List (Tok κ α))
  | 0, _ => none
  | _ + 1, .num c :: ts => some (.num c, ts)
  | _ + 1, .tag k :: ts => some (.ref k, ts)
  | f + 1, .lp :: ts =>
    match pExpr f ts with
    | some (e, .rp :: rest) => some (e, rest)
    | _ => none
  | _ + 1, _ => none
end

def parse (ts : List (Tok κ α)) : Option (TExpr κ α) :=
  match pExpr (12 * ts.length + 12) ts with
  | some (e, []) => some e
  | _ => none

end Grammar

end GlueVerif.Derived
