/-
C12 model, part 1 (core Lean only): the class-rename table (`PATH_PATCHES`) and its chase loop
`lookup_class_with_patches`, the saver/loader registries as tables, and the Bool checkers that
`Props/C12.lean` evaluates with `decide +kernel` over the tables the translator regenerates from
the tree under test on every run (`Generated/C12Tables.lean`).

Mirrors `glue/core/state.py`:

    def lookup_class_with_patches(name):
        original = name
        while name in PATH_PATCHES:
            name = PATH_PATCHES[name]
        try:
            return lookup_class(name)
        except ValueError:
            if name != original:
                try:
                    return lookup_class(original)
                except ValueError:
                    pass
            raise

(the `try` / `except` is `fix: patch fallback to live class`, finding F12b; the pinned tree ended
with `return lookup_class(name)`).
-/
namespace GlueVerif.C12

/-! ## The rename table and the chase loop -/

/-- `PATH_PATCHES` as the list of its items.  Names are `String`s in the hand-written excerpts and
interned `Nat` ids in the generated tables (string comparison is prohibitively slow in the kernel;
`Generated.C12.names` maps ids back to names). -/
abbrev Patches (α : Type) := List (α × α)

variable {α : Type} [DecidableEq α]

/-- `PATH_PATCHES.get(name)` (`none` = `name not in PATH_PATCHES`). -/
def plookup : Patches α → α → Option α
  | [], _ => none
  | (a, b) :: r, k => if a = k then some b else plookup r k

/-- The literal loop `while name in PATH_PATCHES: name = PATH_PATCHES[name]`, allowed to follow
at most `fuel` redirections; `none` = still at a key after `fuel` redirections. -/
def chase (t : Patches α) : Nat → α → Option α
  | 0, n => match plookup t n with
    | none => some n
    | some _ => none
  | f + 1, n => match plookup t n with
    | none => some n
    | some m => chase t f m

/-- Big-step semantics of the (unbounded) Python loop: `Loop t n r` — started at `n` the loop
terminates and leaves `name = r`.  A cyclic table has no `r` with `Loop t n r` for names on or
leading into the cycle (the Python loop spins forever). -/
inductive Loop (t : Patches α) : α → α → Prop
  | done {n : α} : plookup t n = none → Loop t n n
  | step {n m r : α} : plookup t n = some m → Loop t m r → Loop t n r

/-! ### the lookup after the chase (with the fallback of `fix: patch fallback to live class`) -/

/-- What `lookup_class_with_patches` does in the end: returns the object found under a name, or
raises `ValueError` (the message names the patched target). -/
inductive Lookup (α : Type) where
  | found (n : α)
  | error (n : α)
  deriving DecidableEq, Repr

/-- The part after the loop, `r` = the name the loop ended with, `importable n` = `lookup_class(n)`
succeeds (depends on the environment: which packages are installed): the patched target if it
can be imported; else the **original** name if it was redirected and can still be imported; else the
`ValueError` of the target. -/
def finish (importable : α → Bool) (name r : α) : Lookup α :=
  if importable r then .found r
  else if r ≠ name ∧ importable name then .found name
  else .error r

/-- the names handed to `lookup_class`, in order. -/
def finishCalls (importable : α → Bool) (name r : α) : List α :=
  if importable r then [r] else if r ≠ name then [r, name] else [r]

/-- `lookup_class_with_patches(name)` with at most `fuel` redirections (`none` = the loop has not
ended). -/
def lookupWithPatches (t : Patches α) (importable : α → Bool) (fuel : Nat) (name : α) : Option (Lookup α) :=
  (chase t fuel name).map (finish importable name)

/-- the pinned tree (before the fix): `return lookup_class(name)` after the loop. -/
def Orig.lookupWithPatches (t : Patches α) (importable : α → Bool) (fuel : Nat) (name : α) : Option (Lookup α) :=
  (chase t fuel name).map fun r => if importable r then .found r else .error r

/-- Checker: from every key the chase reaches a non-key within `|table|` redirections. -/
def chaseAll (t : Patches α) : Bool := t.all fun p => (chase t t.length p.1).isSome

/-- Keys of the table are pairwise different (it came from a dict; the translator also counts
the lines of the text file). -/
def keysNodup : List α → Bool
  | [] => true
  | k :: r => !r.contains k && keysNodup r

/-- Names inside this package (used by the driver and for the string excerpts; the generated
name table carries this flag per id, cross-checked by the driver at run time). -/
def inPackage (n : String) : Bool := n.startsWith "glue."

/-! ## Captured classes -/

/-- `(written _type name, concrete, written)` as emitted by the translator. -/
abbrev ClassTable (α : Type) := List (α × Bool × Bool)

/-- Is `k` the `_type` name of a concrete class the package still defines and writes? -/
def isLiveWritten (cl : ClassTable α) (k : α) : Bool :=
  cl.any fun e => e.1 = k && e.2.1 && e.2.2

/-- Keys of the rename table that name a live, written, concrete class: a record written *today*
with that `_type` is redirected away from the class that wrote it. -/
def capturedKeys (t : Patches α) (cl : ClassTable α) : List α :=
  (t.map (·.1)).filter (isLiveWritten cl)

/-- The explicit exception list of `no_capture_partial` = the known finding F12 (and nothing
else).  All four are redirected to `glue_qt.…` although glue itself still defines a class of
that name whose instances are written with exactly this `_type`. -/
def knownCaptured : List String :=
  [ "glue.viewers.histogram.layer_artist.HistogramLayerArtist",
    "glue.viewers.profile.layer_artist.ProfileLayerArtist",
    "glue.dialogs.link_editor.state.EditableLinkFunctionState",
    "glue.dialogs.link_editor.state.LinkEditorState" ]

/-- Checker for `no_capture_partial`; `nameOf` maps a table name to its string. -/
def noCaptureExcept (t : Patches α) (cl : ClassTable α) (nameOf : α → String) (exc : List String) : Bool :=
  (capturedKeys t cl).all fun k => exc.contains (nameOf k)

/-- Checker for `captured_live_class_still_loads`: every captured key is recorded as importable
under its own (original) name — `imp` is the translator's observation `lookup_class(name)` for the
names of the table that lie inside the package. -/
def capturedImportable (t : Patches α) (cl : ClassTable α) (imp : List (α × Bool)) : Bool :=
  (capturedKeys t cl).all fun k => imp.contains (k, true)

/-- A frozen excerpt of the pinned tree (patch file lines 3 and 6, class-table rows of the two
layer artists) used for the `decide`d defect witness; the generated tables cannot be used for
that, the witness would stop holding the day the defect is repaired. -/
def pinnedF12Patches : Patches String :=
  [ ("glue.viewers.histogram.layer_artist.HistogramLayerArtist",
     "glue.viewers.histogram.qt.layer_artist.QThreadedHistogramLayerArtist"),
    ("glue.viewers.histogram.qt.layer_artist.QThreadedHistogramLayerArtist",
     "glue_qt.viewers.histogram.layer_artist.QThreadedHistogramLayerArtist"),
    ("glue.viewers.profile.layer_artist.ProfileLayerArtist",
     "glue.viewers.profile.qt.layer_artist.QThreadedProfileLayerArtist"),
    ("glue.viewers.profile.qt.layer_artist.QThreadedProfileLayerArtist",
     "glue_qt.viewers.profile.layer_artist.QThreadedProfileLayerArtist") ]

def pinnedF12Classes : ClassTable String :=
  [ ("glue.viewers.histogram.layer_artist.HistogramLayerArtist", true, true),
    ("glue.viewers.profile.layer_artist.ProfileLayerArtist", true, true) ]

/-! ## Patch targets inside the package must be importable -/

def blookup : List (α × Bool) → α → Option Bool
  | [], _ => none
  | (a, b) :: r, k => if a = k then some b else blookup r k

/-- Checker: the resolution of every key, when it lies inside `glue.`, is recorded importable. -/
def targetsImportable (t : Patches α) (inPkg : α → Bool) (imp : List (α × Bool)) : Bool :=
  t.all fun p => match chase t t.length p.1 with
    | some r => !inPkg r || blookup imp r == some true
    | none => false

/-! ## Saver / loader registries -/

/-- `dispatch._data`: type name ↦ stored version keys in dict order. -/
abbrev Registry (α : Type) := List (α × List Int)

def rlookup : Registry α → α → Option (List Int)
  | [], _ => none
  | (a, b) :: r, k => if a = k then some b else rlookup r k

/-- `1, 2, …, n` as Python ints. -/
def oneTo (n : Nat) : List Int := (List.range' 1 n).map Int.ofNat

/-- The stored versions are exactly `1..n` for some `n ≥ 1` (in registration order). -/
def consecutive (vs : List Int) : Bool := vs == oneTo vs.length && !vs.isEmpty

def registryConsecutive (r : Registry α) : Bool := r.all fun e => consecutive e.2

/-- Types that have a saver but deliberately no loader: a `Session` record is `{}` and the
application loader re-creates the session and hands it to the context with `register_object`. -/
def saverOnly : List String := ["glue.core.session.Session"]

/-- Every loader type has a saver with the same versions; every saver type outside `saverOnly`
has a loader with the same versions. -/
def versionsMatch (sav lod : Registry α) (only : α → Bool) : Bool :=
  (lod.all fun e => rlookup sav e.1 == some e.2) &&
  (sav.all fun e => only e.1 || rlookup lod e.1 == some e.2)

/-- `GlueSerializer._dispatch` → `dispatch[typ]` → `(versions[max(versions)], max(versions))`:
the version number a save uses. -/
def newestVersion (vs : List Int) : Option Int :=
  match vs with
  | [] => none
  | v :: r => some (r.foldl max v)

/-- Checker for `save_uses_newest_table`: the version a save writes is the highest one, it is
`|versions|`, and the loader registry (outside `saverOnly`) has exactly that version too. -/
def newestIsLast (sav lod : Registry α) (only : α → Bool) : Bool :=
  sav.all fun e =>
    newestVersion e.2 == some (Int.ofNat e.2.length) &&
    (only e.1 || ((rlookup lod e.1).getD []).contains (Int.ofNat e.2.length))

/-! ## The interned name table of the generated file -/

/-- `id ↦ (name, name.startsWith "glue.")`; ids are positions. -/
abbrev NameTable := List (String × Bool)

def nameOfIn (names : NameTable) (i : Nat) : String := (names.getD i ("?", false)).1
def inPkgIn (names : NameTable) (i : Nat) : Bool := (names.getD i ("?", false)).2

/-- Run-time cross-check of the translator's interning (evaluated by the compiled driver on every
run; far too slow for the kernel): names pairwise different and every flag correct. -/
def nameTableOk (names : NameTable) : Bool :=
  keysNodup (names.map (·.1)) && names.all fun e => inPackage e.1 == e.2

end GlueVerif.C12
