import GlueVerif.Model.Stats
/-!
C10, round 3: **sequences of statistic / histogram calls on shared objects**.

`GlueVerif.Stats` models one call as a pure function of the data and the selection.  The property,
however, quantifies over every call *whatever was computed before* on the same dataset and the same
subset-state objects — and those objects carry state: `SubsetState.to_mask` is `@memoize`d for
inequality / composite / invert states, so `Data.compute_statistic` receives **the cached ndarray
itself** (or a basic-slice *view* of it, `mask[subarray_slices]`), and `get_data` returns the
component's stored array (or a view of it).  An in-place operation on either of them leaves the value
of the current call intact and corrupts every later one.

This file therefore re-states the implementation over an explicit heap of ndarray objects with
identity (as `Model/SubsetEval.lean` does for C01):

* `Heap`      : bool arrays and value arrays (identity = index), allocation pointers, the `@memoize`
                table of `to_mask` (key = state object, call form, view).
* `BRef/VRef` : references that share memory with a base array (`mask[subarray_slices]`, `comp[view]`).
* `Heap.iand` : `target &= m` **in place**, also through a view; `Heap.setNan` : `arr[~keep] = nan`.
* `uStatH`    : `glue.utils.array.compute_statistic` as a heap program: `keep = np.ones(...)` is a
                *fresh* array, the three `&=` act on it, the data is *copied* before `data[~keep] = nan`.
                `reuse = true` is the seeded variant (`keep = mask`), kept only for the witness that
                the heap model can express the defect.
* `implDirectH / implStatH / implHistH / runSeq` : `Data.compute_statistic` (all paths, chunk loop),
                `Data.compute_histogram`, and a sequence of calls threading the heap.

The theorems (`Props/C10.lean`): every heap program leaves all pre-existing arrays untouched
(`Frame`), its value is the pure `Stats.implStat` of the *original* data and selection, hence the
result of call `k` of any sequence is the result of the same call made alone.
-/
namespace GlueVerif.StatsSeq
open GlueVerif.ArrayUtil GlueVerif.Stats

/-! ## Heap -/

/-- How `to_mask` was called: `decorators._make_key` is `(args, frozenset(kwargs.items()))`, so
`to_mask(data, view)` (from `Data.compute_statistic`) and `to_mask(data, view=view)` (from
`Data.get_mask`, i.e. `compute_histogram`) are cached separately. -/
inductive Form where
  | pos | kw
  deriving DecidableEq, Repr

/-- Key of the `@memoize` table of `to_mask`: the state object (identity), the call form and the view
(`None` / `Ellipsis` / tuple, normalised). -/
structure MKey where
  sid : Nat
  form : Form
  vk : ViewKind
  v : List VItem
  deriving DecidableEq

structure Heap where
  bools : Nat → Idx → Bool     -- bool ndarray objects (masks, `keep`); identity = index
  nb : Nat                     -- allocation pointer
  vals : Nat → Idx → Val       -- value ndarray objects (component storage, float copies)
  nv : Nat
  memo : List (MKey × Nat)     -- `to_mask.__memoize_cache`: key ↦ bool array object

def Heap.allocB (h : Heap) (m : Idx → Bool) : Heap × Nat :=
  ({ h with bools := fun a => if a = h.nb then m else h.bools a, nb := h.nb + 1 }, h.nb)

def Heap.allocV (h : Heap) (x : Idx → Val) : Heap × Nat :=
  ({ h with vals := fun a => if a = h.nv then x else h.vals a, nv := h.nv + 1 }, h.nv)

/-- A bool array reference: a base object, or a step-1 box view of it (`mask[subarray_slices]`),
which shares its memory. -/
structure BRef where
  id : Nat
  sub : Option Sub

def Heap.readB (h : Heap) (r : BRef) : Idx → Bool :=
  match r.sub with
  | none => h.bools r.id
  | some s => fun j => h.bools r.id (subIdx s j)

/-- The optional `mask` argument as a function (`None` = everything). -/
def Heap.readOpt (h : Heap) : Option BRef → Idx → Bool
  | some r => h.readB r
  | none => fun _ => true

/-- Position inside a step-1 box of an index of the base array (`none` outside the box). -/
def boxPre : Sub → Idx → Option Idx
  | [], [] => some []
  | (b, n, _) :: ss, i :: is =>
    if b ≤ i ∧ i < b + n then (boxPre ss is).map ((i - b) :: ·) else none
  | _, _ => none

/-- `ref &= m` — **in place**: the base object of `ref` changes its value (through a view: inside
the box only). -/
def Heap.iand (h : Heap) (r : BRef) (m : Idx → Bool) : Heap :=
  { h with bools := fun a =>
      if a = r.id then
        (match r.sub with
         | none => fun i => h.bools a i && m i
         | some s => fun i => match boxPre s i with
            | some j => h.bools a i && m j
            | none => h.bools a i)
      else h.bools a }

/-- A value array reference: a base object seen through an index map (`comp.data`, `comp[view]`,
`data[slices]`); shares memory with the base. -/
structure VRef where
  id : Nat
  ix : Idx → Idx

def Heap.readV (h : Heap) (r : VRef) : Idx → Val := fun j => h.vals r.id (r.ix j)

/-- `arr[~keep] = nan` — in place on the object `t`. -/
def Heap.setNan (h : Heap) (t : Nat) (keep : Idx → Bool) : Heap :=
  { h with vals := fun a =>
      if a = t then (fun i => if keep i then h.vals a i else .nan) else h.vals a }

def Heap.lookup (h : Heap) (k : MKey) : Option Nat :=
  (h.memo.find? fun e => decide (e.1 = k)).map (·.2)

/-- `h'` is reachable from `h` without touching anything that existed in `h`: every array object of
`h` still has its value, the memo table was only extended. -/
structure Frame (h h' : Heap) : Prop where
  nb : h.nb ≤ h'.nb
  nv : h.nv ≤ h'.nv
  bools : ∀ a, a < h.nb → h'.bools a = h.bools a
  vals : ∀ a, a < h.nv → h'.vals a = h.vals a
  memo : ∃ ext, h'.memo = h.memo ++ ext

/-! ## `glue.utils.array.compute_statistic` as a heap program -/

/-- The `keep` array of `compute_statistic`.  `reuse = false`: the code that exists —
`keep = np.ones(data.shape, dtype=bool)` is a fresh object and `keep &= np.isfinite(data)`,
`keep &= data > 0`, `keep &= mask` act on it.  `reuse = true`: the seeded variant `keep = mask`
(the caller's object, filtered in place). -/
def keepH (reuse : Bool) (h : Heap) (cfg : Cfg) (d : VRef) (m : Option BRef) : Heap × BRef :=
  let hk : Heap × BRef := match reuse, m with
    | true, some r => (h, r)
    | _, _ => let a := h.allocB (fun _ => true); (a.1, ⟨a.2, none⟩)
  let h2 := if cfg.finite then hk.1.iand hk.2 (fun i => (hk.1.readV d i).isFin) else hk.1
  let h3 := if cfg.positive then h2.iand hk.2 (fun i => (h2.readV d i).isPos) else h2
  let h4 := match reuse, m with
    | false, some r => h3.iand hk.2 (h3.readB r)
    | _, _ => h3
  (h4, hk.2)

/-- `glue.utils.array.compute_statistic` as a heap program. -/
def uStatH (reuse : Bool) (h : Heap) (cfg : Cfg) (red : List Bool) (sh : List Nat) (d : VRef)
    (m : Option BRef) (axisNone : Bool) : Heap × Result :=
  if cfg.finite || cfg.positive || m.isSome then
    let hk := keepH reuse h cfg d m
    let keep := hk.1.readB hk.2
    -- axis None: `data[keep]` (a gathered copy, modelled at the original shape);
    -- otherwise `data = np.array(data, dtype=float)` (a copy) and `data[~keep] = nan`
    let c := hk.1.allocV (hk.1.readV d)
    let h5 := if axisNone then c.1 else c.1.setNan c.2 keep
    let arr := h5.vals c.2
    (h5, { shape := keptShape red sh,
           cell := fun kk => reduce cfg.stat (cellVals red sh
             (fun i => if (!axisNone || keep i) && !(arr i).isNan then some (arr i) else none) kk) })
  else
    -- plain numpy reducers on the array as it is (no copy, read only)
    (h, { shape := keptShape red sh,
          cell := fun kk => reduce cfg.stat (cellVals red sh (fun i => some (h.readV d i)) kk) })

/-- … with `if data.size == 0: return np.nan`. -/
def uStatImplH (reuse : Bool) (h : Heap) (cfg : Cfg) (red : List Bool) (sh : List Nat) (d : VRef)
    (m : Option BRef) (axisNone : Bool) : Heap × Result :=
  if prod sh = 0 then (h, { shape := [], cell := fun _ => .nan })
  else uStatH reuse h cfg red sh d m axisNone

/-! ## Subset-state objects and `to_mask` -/

inductive SKind where
  | slice (vs : Sub)             -- `SliceSubsetState`
  | mask (m : Idx → Bool)        -- any other state, as its full-shape mask

def SKind.toSelM : SKind → SelM
  | .slice vs => .slice vs
  | .mask m => .mask m

/-- A subset-state object: what it selects and whether its class decorates `to_mask` with
`@memoize` (inequality, and/or/xor, invert: yes; range, ROI, mask, slice: no). -/
structure SObj where
  sel : SKind
  memo : Bool

/-- `selection` argument of the pure model for a call that names state object `sid` (or none). -/
def selOf (S : Nat → SObj) : Option Nat → SelM
  | none => .none
  | some s => (S s).sel.toSelM

/-- Value of `state.to_mask(data, view)`: the full-shape mask seen through the view (C04). -/
def maskContent (S : Nat → SObj) (k : MKey) : Idx → Bool :=
  fun j => inRange j (viewShape' k.v) && (S k.sid).sel.toSelM.maskFn (viewIdx k.v j)

/-- `state.to_mask(data, view)` with the `@memoize` wrapper where the class has one: a cached call
returns **the cached object**. -/
def toMaskH (S : Nat → SObj) (h : Heap) (k : MKey) : Heap × Nat :=
  if (S k.sid).memo then
    match h.lookup k with
    | some a => (h, a)
    | none =>
      let r := h.allocB (maskContent S k)
      ({ r.1 with memo := r.1.memo ++ [(k, r.2)] }, r.2)
  else h.allocB (maskContent S k)

/-- Every cached object holds the value of its key (what `@memoize` silently relies on). -/
def Coherent (S : Nat → SObj) (h : Heap) : Prop :=
  ∀ e ∈ h.memo, e.2 < h.nb ∧ h.bools e.2 = maskContent S e.1

/-! ## `Data.compute_statistic` -/

/-- The minimal-subarray path on the mask object `a` (value of `to_mask(self, view)`). -/
def implMaskedH (reuse : Bool) (h : Heap) (cfg : Cfg) (att : Nat) (v : List VItem)
    (red : List Bool) (a : Nat) (axisNone : Bool) : Heap × Result :=
  let vsh := viewShape' v
  let vm := h.bools a
  if !((allIdx vsh).any vm) then
    (h, { shape := keptShape red vsh, cell := fun _ => .nan })
  else
    let box := bbox vsh vm
    if allStep1 v then
      -- `mask = mask[subarray_slices]`: a VIEW of the (possibly cached) object
      let r := uStatH reuse h cfg red (subShape box) ⟨att, viewIdx (recombine v box)⟩
        (some ⟨a, some box⟩) axisNone
      (r.1,
        if keptShape red vsh == [] then r.2
        else
          { shape := keptShape red vsh,
            cell := fun k => if inBoxKept red box k then r.2.cell (shiftKept red box k) else .nan })
    else
      uStatH reuse h cfg red vsh ⟨att, viewIdx v⟩ (some ⟨a, none⟩) axisNone

/-- `Data.compute_statistic` after the chunking branch.  `att` = the component's stored array
object, `sid` = the subset-state object (if any). -/
def implDirectH (reuse : Bool) (S : Nat → SObj) (h : Heap) (cfg : Cfg) (att : Nat)
    (sid : Option Nat) (vk : ViewKind) (v : List VItem) (red : List Bool) (axisNone : Bool) :
    Heap × Result :=
  match sid with
  | none => uStatImplH reuse h cfg red (viewShape' v) ⟨att, viewIdx v⟩ none axisNone
  | some s =>
    match (S s).sel, vk with
    | .slice vs, .none =>
      -- shortcut: `subset_state.to_array(self, cid)`, no mask
      uStatImplH reuse h cfg red (subShape vs) ⟨att, subIdx vs⟩ none axisNone
    | _, _ =>
      let r := toMaskH S h ⟨s, .pos, vk, v⟩
      implMaskedH reuse r.1 cfg att v red r.2 axisNone

structure StatCall where
  cfg : Cfg
  att : Nat
  sid : Option Nat
  vk : ViewKind
  v : List VItem
  ak : AxisKind
  red : List Bool
  nmax : Nat

/-- `Data.compute_statistic` incl. the chunk loop (one recursive call per chunk, on the same
objects). -/
def implStatH (reuse : Bool) (S : Nat → SObj) (sh : List Nat) (h : Heap) (c : StatCall) :
    Heap × Result :=
  let size := prod sh
  let nRed := (c.red.filter id).length
  if c.vk == .none && c.ak == .tuple && nRed > 0 && nRed + 1 == sh.length && size > c.nmax
      && !(selOf S c.sid).isSlice then
    let ai := firstKept c.red
    let hgt := sh.getD ai 0
    let cs := max 1 (hgt * c.nmax / size)
    let chunks := iterateChunksLoop sh (setAt sh ai cs)
    let r := chunks.foldl (fun (p : Heap × List Val) ch =>
      let q := implDirectH reuse S p.1 c.cfg c.att c.sid .tuple (chunkView ch) c.red false
      let a := (ch.getD ai (0, 0)).1
      let n := (ch.getD ai (0, 0)).2 - a
      (q.1, writeSlice p.2 a ((List.range n).map fun j => q.2.cell [j])))
      (h, List.replicate hgt (.fin 0))
    (r.1, { shape := [hgt], cell := fun k => match k with | [i] => r.2.getD i .nan | _ => .nan })
  else implDirectH reuse S h c.cfg c.att c.sid c.vk c.v c.red (c.ak == .none)

/-- The same call in the pure model, on data `D` (component values by object). -/
def pureStat (S : Nat → SObj) (sh : List Nat) (D : Nat → Idx → Val) (c : StatCall) : Result :=
  implStat c.cfg sh (D c.att) (selOf S c.sid) c.vk c.v c.ak c.red c.nmax

/-! ## `Data.compute_histogram` (1-d) -/

structure HistCall where
  att : Nat
  watt : Option Nat
  sid : Option Nat
  r0 : Rat
  r1 : Rat
  n : Nat
  log : Bool

def weightOf : Val → Rat
  | .fin q => q
  | _ => 0

/-- The selected (value, weight) pairs in row-major order. -/
def histPairs (sh : List Nat) (x : Idx → Val) (w : Option (Idx → Val)) (m : Idx → Bool) :
    List (Val × Rat) :=
  (allIdx sh).filterMap fun i =>
    if m i then some (x i, match w with | some f => weightOf (f i) | none => 1) else none

/-- `mask = self.get_mask(subset_state)` (keyword form of `to_mask`, whole array), then `x[mask]`,
`w[mask]` — fancy indexing: copies. -/
def implHistH (S : Nat → SObj) (sh : List Nat) (h : Heap) (c : HistCall) : Heap × HistOut :=
  match c.sid with
  | none =>
    (h, implHist c.r0 c.r1 c.n c.log (histPairs sh (h.vals c.att) (c.watt.map h.vals) fun _ => true))
  | some s =>
    let r := toMaskH S h ⟨s, .kw, .none, fullView sh⟩
    (r.1, implHist c.r0 c.r1 c.n c.log
      (histPairs sh (r.1.vals c.att) (c.watt.map r.1.vals) (r.1.bools r.2)))

def pureHist (S : Nat → SObj) (sh : List Nat) (D : Nat → Idx → Val) (c : HistCall) : HistOut :=
  implHist c.r0 c.r1 c.n c.log (histPairs sh (D c.att) (c.watt.map D)
    (match c.sid with
     | none => fun _ => true
     | some s => maskContent S ⟨s, .kw, .none, fullView sh⟩))

/-! ## Sequences -/

inductive Call where
  | stat (c : StatCall)
  | hist (c : HistCall)

inductive Out where
  | res (r : Result)
  | hist (o : HistOut)

def Call.atts : Call → List Nat
  | .stat c => [c.att]
  | .hist c => c.att :: c.watt.toList

def callH (reuse : Bool) (S : Nat → SObj) (sh : List Nat) (h : Heap) : Call → Heap × Out
  | .stat c => let r := implStatH reuse S sh h c; (r.1, .res r.2)
  | .hist c => let r := implHistH S sh h c; (r.1, .hist r.2)

/-- The call made on its own, as a function of the original data and selections. -/
def pureCall (S : Nat → SObj) (sh : List Nat) (D : Nat → Idx → Val) : Call → Out
  | .stat c => .res (pureStat S sh D c)
  | .hist c => .hist (pureHist S sh D c)

/-- A sequence of calls executed in order on the same objects. -/
def runSeq (reuse : Bool) (S : Nat → SObj) (sh : List Nat) : Heap → List Call → Heap × List Out
  | h, [] => (h, [])
  | h, c :: cs =>
    let r := callH reuse S sh h c
    let t := runSeq reuse S sh r.1 cs
    (t.1, r.2 :: t.2)

/-- The heap at the start of a session: components `0 … n-1` stored, nothing cached. -/
def initHeap (D : Nat → Idx → Val) (n : Nat) : Heap :=
  { bools := fun _ _ => false, nb := 0, vals := D, nv := n, memo := [] }

/-- The heap holds the dataset `D` (components `0 … n-1`) and a coherent cache. -/
structure Good (S : Nat → SObj) (D : Nat → Idx → Val) (n : Nat) (h : Heap) : Prop where
  coh : Coherent S h
  nv : n ≤ h.nv
  vals : ∀ a, a < n → h.vals a = D a

end GlueVerif.StatsSeq
