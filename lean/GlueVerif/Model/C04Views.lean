import GlueVerif.Model.ArrayUtil
import GlueVerif.Model.Coords
/-
C04 model: views of attribute values and of membership masks.

* L0 — numpy indexing for the view domain of property C04 (`None`, `Ellipsis`, a bare slice / integer,
  tuples of integers and slices possibly shorter than `ndim`, tuples of integer index arrays — with
  scalar entries, which is what `IndexedData` produces —, full-shape Boolean masks) as a *gather*:
  `viewPoints shape view` is the shape of `a[view]` and, for every element of the result in
  row-major order, the index tuple of `a` it is taken from.
* `Impl.*` — the view fast paths as coded in the tree under test (pinned tree + `props.d/C04/fixes`):
  `Data.get_data` per attribute kind (`glue/core/data.py`, `component.py`, `component_link.py`,
  `util.join_component_view`), `SubsetState.to_mask` per selection class (`glue/core/subset.py`:
  the `RoiSubsetStateNd` pixel-space shortcut, `SliceSubsetState.to_mask`, `MaskSubsetState`,
  `ElementSubsetState`, composites), `IndexedData._to_original_view/_translate_cid/get_data/get_mask`
  (`glue/core/data_derived.py`).
* A second dataset whose pixel ids are `LinkSame`-linked to this one's (`links`, for a fully linked pair the
  axis order `data.pixel_aligned_data[other]`): `Attr.pixelOf` (the other's pixel id read through the
  position of its axis in the order — the inverse image), `State.predN` (regions on such ids: general path),
  `State.sliceOf` (re-ordered slices), `State.maskOf`; `Mutant.roiCross` only for the theorems about an
  extension of the pixel-space shortcut to such ids.
* `Spec.*` — what C04 demands: the result for a view is the full-size result indexed by the view.

Core Lean only.  numpy's `broadcast_to` / `unbroadcast` / `broadcast_arrays` are modelled by their
value semantics (C20 `unbroadcast_roundtrip`).
-/
namespace GlueVerif.C04
open GlueVerif.ArrayUtil
open GlueVerif.Coords (Sel selOf selsOf selShape maskFilter ViewErr Coord)

/-! ## L0: numpy indexing as a gather -/

/-- One entry of a tuple of index arrays: an integer array (flattened; all arrays of a tuple have a
common shape) or a scalar, which numpy broadcasts against the arrays. -/
inductive AItem where
  | arr (xs : List Int)
  | int (i : Int)
  deriving Repr, BEq

/-- The view domain of C04. -/
inductive View where
  /-- Python `None` (glue: "no view"). -/
  | none
  | ellipsis
  /-- a bare integer / slice, or a tuple of integers and slices not longer than `ndim`. -/
  | basic (items : List ViewItem)
  /-- a tuple of `ndim` index arrays of common shape `shape` (scalars allowed among them). -/
  | arrays (shape : List Nat) (items : List AItem)
  /-- a Boolean mask of the full shape (flattened, row-major). -/
  | mask (m : List Bool)
  deriving Repr

/-- Row-major product of per-axis lists. -/
def cartG {α : Type} : List (List α) → List (List α)
  | [] => [[]]
  | xs :: rest => xs.flatMap fun x => (cartG rest).map (x :: ·)

/-- All index tuples below a shape, row-major. -/
def allIdx (sh : List Nat) : List (List Nat) := cartG (sh.map List.range)

/-- `-h ≤ i < h`. -/
def inAxis (h : Nat) (i : Int) : Bool := decide ((-(h : Int)) ≤ i) && decide (i < h)

/-- numpy's treatment of a (valid) possibly negative index on an axis of length `h`. -/
def wrapD (h : Nat) (i : Int) : Nat := (if i < 0 then i + h else i).toNat

/-- Coordinate contributed by an entry of a tuple of index arrays to the `r`-th result element. -/
def AItem.coord (h : Nat) (r : Nat) : AItem → Nat
  | .arr xs => wrapD h (xs.getD r 0)
  | .int i => wrapD h i

def AItem.valid (h : Nat) (len : Nat) : AItem → Bool
  | .arr xs => xs.length == len && xs.all (inAxis h)
  | .int i => inAxis h i

/-- numpy semantics of `a[view]` for an array of shape `sh`: the shape of the result and, for every
element of the result (row-major), the index tuple of `a` it comes from. -/
def viewPoints (sh : List Nat) : View → Except ViewErr (List Nat × List (List Nat))
  | .none => .ok (sh, allIdx sh)
  | .ellipsis => .ok (sh, allIdx sh)
  | .basic items => do
    let sels ← selsOf sh items
    pure (selShape sels, cartG (sels.map Sel.toList))
  | .arrays s items =>
    if items.length ≠ sh.length then .error .domain
    else if (sh.zip items).all (fun p => p.2.valid p.1 (prod s)) then
      .ok (s, (List.range (prod s)).map fun r => (sh.zip items).map fun p => p.2.coord p.1 r)
    else .error .indexError
  | .mask m =>
    if m.length ≠ prod sh then .error .domain
    else
      let pts := maskFilter (allIdx sh) m
      .ok ([pts.length], pts)

/-- A materialised n-d array: shape and row-major values. -/
structure NArr (α : Type) where
  shape : List Nat
  data : List α
  deriving Repr, BEq

/-- Row-major offset of an index tuple. -/
def flat : List Nat → List Nat → Nat
  | _ :: hs, i :: is => i * prod hs + flat hs is
  | _, _ => 0

def NArr.get {α : Type} [Inhabited α] (a : NArr α) (idx : List Nat) : α :=
  a.data.getD (flat a.shape idx) default

/-- The array of shape `sh` whose element at `idx` is `f idx`. -/
def tabulate {α : Type} (sh : List Nat) (f : List Nat → α) : NArr α := ⟨sh, (allIdx sh).map f⟩

/-- `a[view]` for the array `idx ↦ f idx` of shape `sh`. -/
def gather {α : Type} (sh : List Nat) (f : List Nat → α) (v : View) : Except ViewErr (NArr α) :=
  match viewPoints sh v with
  | .ok (s, pts) => .ok ⟨s, pts.map f⟩
  | .error e => .error e

/-- numpy `a[view]` on a materialised array (`view = None` means "no view", as everywhere in glue). -/
def NArr.index {α : Type} [Inhabited α] (a : NArr α) (v : View) : Except ViewErr (NArr α) :=
  gather a.shape a.get v

def NArr.map {α β : Type} (f : α → β) (a : NArr α) : NArr β := ⟨a.shape, a.data.map f⟩

def emap {ε α β : Type} (f : α → β) : Except ε α → Except ε β
  | .ok a => .ok (f a)
  | .error e => .error e

/-- Elementwise binary operation on two results of equal shape (numpy would broadcast; the
operands of every use below are views of same-shape arrays under the same view). -/
def zipRes {α β γ : Type} (op : α → β → γ) (x : Except ViewErr (NArr α)) (y : Except ViewErr (NArr β)) :
    Except ViewErr (NArr γ) :=
  match x, y with
  | .ok a, .ok b => .ok ⟨b.shape, List.zipWith op a.data b.data⟩
  | .error e, _ => .error e
  | _, .error e => .error e

/-- The positive-step fragment of the view domain (the property's stated domain). -/
def ViewItem.posStep : ViewItem → Bool
  | .int _ => true
  | .slice _ _ c => match c with | none => true | some s => decide (0 < s)

def View.posStep : View → Bool
  | .basic items => items.all ViewItem.posStep
  | _ => true

/-! ## a second dataset whose pixel axes are linked to this one's (`LinkSame` on pixel ids)

`links[j] = some m` says that pixel axis `j` of *this* dataset (the one being evaluated) is identical
to pixel axis `m` of the *other* dataset; `none` = axis `j` is not linked.  When every axis is linked
this is `this.pixel_aligned_data[other]` (`link_manager.equivalent_pixel_cids(other, this)`: "the
order in which the pixel ids of this dataset are found in the other one"), an axis permutation when
both datasets have the same number of dimensions. -/

/-- The axis of this dataset that carries pixel axis `k` of the other dataset: the position of `k`
in the order, i.e. the **inverse** permutation's image (`order.index(k)`).  This is what evaluating
the other dataset's pixel id on this dataset does: the link manager derives it from the one pixel id
of this dataset it is identical to. -/
def axisOf (links : List (Option Nat)) (k : Nat) : Nat := links.idxOf (some k)

/-- The forward image `order[k]` (what a confusion of the two directions computes); it coincides with
`axisOf` for the identity and for every swap of two axes, not for a cyclic order of three axes. -/
def axisOfForward (links : List (Option Nat)) (k : Nat) : Nat := ((links.getD k Option.none).getD 0)

/-- Coordinate along axis `k` of the other dataset of the point that has index tuple `idx` in this
dataset: the association list `other axis links[j] ↦ idx[j]` (what the links *mean*). -/
def otherCoord (links : List (Option Nat)) (idx : List Nat) (k : Nat) : Nat :=
  ((links.zip idx).lookup (some k)).getD 0

/-- The index tuple in the other dataset (of `n` axes) of the point `idx` of this dataset. -/
def otherPoint (links : List (Option Nat)) (n : Nat) (idx : List Nat) : List Nat :=
  (List.range n).map (otherCoord links idx)

/-- `[self.slices[i] for i in order]` (`SliceSubsetState.to_mask` for a pixel-aligned dataset). -/
def reorderSlices (order : List Nat) (slices : List ViewItem) : List ViewItem :=
  order.map fun m => slices.getD m (.slice Option.none Option.none Option.none)

/-! ## attribute kinds (`Data.get_data(cid, view)`) -/

/-- Attribute kinds of a dataset of shape `sh`.  Values are exact rationals. -/
inductive Attr where
  /-- pixel coordinate along axis `ax`: `CoordinateComponent(world=False)._calculate(view)` computes
  `broadcast_arrays(*ogrid)[ax][view]`; `BaseCartesianData.get_data` computes
  `broadcast_to(arange(n).reshape(..), shape)[view]`. -/
  | pixel (ax : Nat)
  /-- stored numeric component, or the labels of a categorical one: `Component.__getitem__` =
  `self._data[view]`. -/
  | stored (vals : List Rat)
  /-- `BinaryComponentLink.compute` with one numeric operand (also a unary `ComponentLink`). -/
  | map (f : Rat → Rat) (a : Attr)
  /-- `BinaryComponentLink.compute` of two attributes. -/
  | zip (op : Rat → Rat → Rat) (a b : Attr)
  /-- an attribute of another dataset reached through an identity `ComponentLink`:
  `ComponentLink.compute` fetches `data[join_component_view(cid, view)]`. -/
  | linked (a : Attr)
  /-- world coordinate along numpy axis `ax` (`CoordinateComponent(world=True)._calculate`). -/
  | world (c : Coord) (ax : Nat)
  /-- pixel attribute `k` of **another** dataset whose pixel axes are linked to this one's as `links`
  (see `axisOf`): an externally derived component, `ComponentLink.compute` (identity) fetches
  `data[own_pixel_id(axisOf links k), join_component_view(view)]`. -/
  | pixelOf (links : List (Option Nat)) (k : Nat)

/-- `split_component_view(join_component_view(cid, view))` as repaired (`C04a`): `None` stays `None`,
a tuple is unpacked and re-packed (a 1-tuple becomes its bare element, which indexes identically), a
bare slice / integer / `Ellipsis` is not iterable and is kept, and a single array (Boolean mask or index
array) is kept whole instead of being iterated row by row. -/
def joinSplit : View → View
  | .none => .none
  | .ellipsis => .ellipsis
  | .basic items => .basic items
  | .arrays s items => .arrays s items
  | .mask m => .mask m

/-- The view in the vocabulary of the C15 model, when `_calculate` treats it on one of the paths
modelled there: everything but tuples of index arrays that contain scalars.  Index arrays are
wrapped into `[0, n)` first (`C04f`). -/
def toCoordsView (sh : List Nat) : View → Option Coords.View
  | .none => some .all
  | .ellipsis => some .all
  | .basic items => some (.basic items)
  | .mask m => some (.mask m)
  | .arrays s items =>
    if items.length = sh.length ∧ (sh.zip items).all (fun p => match p.2 with
        | .arr xs => xs.length == prod s && xs.all (inAxis p.1)
        | .int _ => false) then
      some (.arrays s ((sh.zip items).map fun p => match p.2 with
        | .arr xs => xs.map (wrapD p.1)
        | .int i => [wrapD p.1 i]))
    else Option.none

namespace Impl

/-- `CoordinateComponent._calculate(view)` for `world=True` as repaired (`C04f`): the fast paths
modelled (and proved correct) in C15 when the view is `None`/`Ellipsis`/basic/`ndim` index arrays/a
mask; any other tuple (scalars among index arrays, as `IndexedData` produces) takes the general path:
all values, then the view. -/
def world (c : Coord) (sh : List Nat) (ax : Nat) (v : View) : Except ViewErr (NArr Rat) :=
  match toCoordsView sh v with
  | some cv =>
    match Coords.Impl.worldView c sh ax cv with
    | .ok a => .ok ⟨a.shape, a.data⟩
    | .error e => .error e
  | Option.none =>
    match Coords.Impl.worldView c sh ax .all with
    | .ok a => (NArr.mk a.shape a.data).index v
    | .error e => .error e

/-- `Data.get_data(cid, view)` per attribute kind, as coded. -/
def attr (sh : List Nat) : Attr → View → Except ViewErr (NArr Rat)
  | .pixel ax, v => (tabulate sh fun idx => ((idx.getD ax 0 : Nat) : Rat)).index v
  | .stored vals, v => (NArr.mk sh vals).index v
  | .map f a, v => emap (NArr.map f) (attr sh a v)
  | .zip op a b, v => zipRes op (attr sh a v) (attr sh b v)
  | .linked a, v => attr sh a (joinSplit v)
  | .world c ax, v => world c sh ax v
  | .pixelOf links k, v =>
    (tabulate sh fun idx => ((idx.getD (axisOf links k) 0 : Nat) : Rat)).index (joinSplit v)

/-- `[data[att, view] for att in atts]` as one array of tuples (all operands are fetched with the same
view; an empty attribute list keeps the view's shape). -/
def attrsN (sh : List Nat) : List Attr → View → Except ViewErr (NArr (List Rat))
  | [], v => gather sh (fun _ => []) v
  | a :: as, v => zipRes (· :: ·) (attr sh a v) (attrsN sh as v)

end Impl

/-! ## selections (`Data.get_mask(state, view)` → `state.to_mask(data, view)`) -/

/-- Selection classes, as far as their treatment of views differs. -/
inductive State where
  /-- `SubsetState`: `broadcast_to(False, view_shape(data.shape, view))`. -/
  | base
  /-- an elementwise test of one attribute (`RangeSubsetState`, `MultiRangeSubsetState`,
  `InequalitySubsetState` against a number, `CategorySubsetState`, `CategoricalROISubsetState`):
  `pred(data[att, view])`. -/
  | pred (a : Attr) (p : Rat → Bool)
  /-- an elementwise test of two attributes (`InequalitySubsetState` between attributes,
  `RoiSubsetState` on non-pixel attributes): `pred(data[a, view], data[b, view])`. -/
  | pred2 (a b : Attr) (p : Rat → Rat → Bool)
  /-- an elementwise test of any number of attributes: `RoiSubsetStateNd` (1-d, 2-d, 3-d regions, with or
  without `pretransform`, `Projected3dROI`) on attributes that are **not all pixel ids of this dataset** —
  in particular pixel / world / derived ids of *another*, pixel-linked dataset (`Attr.pixelOf`) —: the
  general path `roi.contains(*[data[att, view] for att in atts])`, never the pixel-space shortcut. -/
  | predN (as : List Attr) (p : List Rat → Bool)
  /-- any other class that evaluates an elementwise function of `data[att, view]` for its attributes;
  `f idx` is that function of the attribute values at `idx` (measured on the implementation). -/
  | table (f : List Nat → Bool)
  /-- `RoiSubsetStateNd` whose attributes are the pixel attributes along `axes`: `roi` is
  `roi.contains` on the tuple of pixel coordinates. -/
  | roiPix (axes : List Nat) (roi : List Nat → Bool)
  /-- `RoiSubsetStateNd` on pixel attributes whose test goes through `iterate_chunks` (a `pretransform`,
  or `Projected3dROI.contains3d`).  As repaired (`C04h`) `iterate_chunks(())` yields the single empty
  chunk of a 0-d result (a view that selects a single element), so chunking is transparent; the pinned
  tree raised there (`Pinned.mask`). -/
  | roiChunked (axes : List Nat) (roi : List Nat → Bool)
  /-- `CategoricalROISubsetState2D` / `CategoricalMultiRangeSubsetState`: a Python loop over the
  *ravelled* `data[att, view]` that fills a mask of the values' shape (as repaired, `C04i`); `f` as for
  `table`.  The pinned tree looped over `range(len(values))` and only worked for 1-d results
  (`Pinned.mask`; there `indexErr` says whether a single selected element made it raise `IndexError`
  rather than `TypeError`). -/
  | loop1d (indexErr : Bool) (f : List Nat → Bool)
  /-- `SliceSubsetState(data, slices)` (entries padded to `ndim`; integer entries occur in
  `IndexedData._indices_subset_state`). -/
  | sliceSt (slices : List ViewItem)
  /-- a `SliceSubsetState` of a dataset that is not pixel-aligned with this one. -/
  | unrelated
  /-- `SliceSubsetState(other, slices)` (also `PixelSubsetState`) evaluated on a dataset that is
  pixel-aligned with `other`: `order = data.pixel_aligned_data[other]`, the state's slices are re-ordered
  (`[slices[i] for i in order]`, axis `j` of this dataset gets the slice of the other's axis `order[j]`)
  and then treated as the dataset's own. -/
  | sliceOf (order : List Nat) (slices : List ViewItem)
  /-- `MaskSubsetState(mask, data.pixel_component_ids)`: the same-grid shortcut. -/
  | maskSame (m : List Bool)
  /-- `MaskSubsetState(mask, cids)` where `cids` are this dataset's pixel attributes along `axes` (in
  another order): the general path. -/
  | maskAxes (axes : List Nat) (mshape : List Nat) (m : List Bool)
  /-- `MaskSubsetState(mask, cids)` where `cids` are the pixel ids along the axes `ks` of **another**
  dataset, pixel-linked as `links`: the general path, each cid evaluated on this dataset
  (`Attr.pixelOf`), incl. the `zip(vals, data.shape)` range check. -/
  | maskOf (links : List (Option Nat)) (ks : List Nat) (mshape : List Nat) (m : List Bool)
  /-- `ElementSubsetState(indices)`. -/
  | element (indices : List Int)
  | and (a b : State)
  | or (a b : State)
  | xor (a b : State)
  | inv (a : State)

def ViewItem.isSlice : ViewItem → Bool
  | .slice _ _ _ => true
  | .int _ => false

/-- Only `None`, `Ellipsis`, a slice, or a tuple of slices: the views under which the pixel-space
shortcut of `RoiSubsetStateNd.to_mask` is valid (`C04b`). -/
def isGridView : View → Bool
  | .none => true
  | .ellipsis => true
  | .basic items => items.all ViewItem.isSlice
  | _ => false

def gridItems : View → List ViewItem
  | .basic items => items
  | _ => []

/-- Position → first element on length-1 axes (numpy broadcasting). -/
def clip : List Nat → List Nat → List Nat
  | n :: ns, j :: js => (if n = 1 then 0 else j) :: clip ns js
  | _, _ => []

/-- `np.broadcast_to(a, to)` for an array of shape `frm` with `frm[i] ∈ {1, to[i]}`. -/
def broadcastData {α : Type} [Inhabited α] (small : List α) (frm to : List Nat) : List α :=
  (allIdx to).map fun pos => small.getD (flat frm (clip frm pos)) default

/-- Coordinates of a position of a regular sub-grid given by per-axis coordinate lists. -/
def coordsAt (ks : List (List Nat)) (pos : List Nat) : List Nat :=
  List.zipWith (fun k j => k.getD j 0) ks pos

def mapIdxFrom {α β : Type} (f : Nat → α → β) : Nat → List α → List β
  | _, [] => []
  | i, x :: xs => f i x :: mapIdxFrom f (i + 1) xs

/-- Outcome of one axis in `SliceSubsetState.to_mask`. -/
inductive AxisOut where
  /-- integer view entry that lies on the state's slice: the axis disappears. -/
  | dropped
  /-- integer view entry outside the state's slice: the whole result is `False`. -/
  | miss
  /-- flags along the (kept) axis after `mask[subslice] = True`. -/
  | flags (fl : List Bool)
  deriving Repr, BEq

def AxisOut.isMiss : AxisOut → Bool
  | .miss => true
  | _ => false

def AxisOut.flags? : AxisOut → Option (List Bool)
  | .flags fl => some fl
  | _ => Option.none

/-- `range(*slice.indices(n))` membership flags for one entry of the state's `slices`. -/
def stateAxisFlags (n : Nat) : ViewItem → Except ViewErr (List Bool)
  | .int k => if inAxis n k then .ok ((List.range n).map fun p => p == wrapD n k) else .error .indexError
  | .slice a b c =>
    match sliceIndices a b c n with
    | some (bs, es, ss) =>
      if ss > 0 then .ok ((List.range n).map fun (p : Nat) => (pyRange bs es ss.toNat).contains (p : Int))
      else .error .domain
    | Option.none => .error .domain

/-- One axis of the loop `for i in range(data.ndim)` in `SliceSubsetState.to_mask` (tuple views of
integers and slices): `item = none` when the view tuple is shorter than `i + 1`. -/
def sliceAxis (n : Nat) (sl : ViewItem) : Option ViewItem → Except ViewErr AxisOut
  | Option.none => emap AxisOut.flags (stateAxisFlags n sl)
  | some (.int k) =>
    match sl with
    | .slice a b c =>
      match sliceIndices a b c n with
      | some (bs, es, ss) =>
        if !inAxis n k then .error .indexError
        else
          -- negative indices count from the end of the axis (`C04d`)
          let idx : Int := wrapD n k
          if idx < bs ∨ idx ≥ es ∨ (idx - bs) % ss ≠ 0 then .ok .miss else .ok .dropped
      | Option.none => .error .domain
    | .int _ => .error .domain
  | some (.slice va vb vc) =>
    match sl with
    | .slice a b c =>
      match sliceIndices va vb vc n, sliceIndices a b c n with
      | some (bv, ev, sv), some (bs, es, ss) =>
        if sv ≤ 0 ∨ ss ≤ 0 then .error .domain
        else
          let out := combineNorm bv ev sv.toNat bs es ss.toNat
          let m := rangeLen bv ev sv.toNat
          .ok (.flags ((List.range m).map fun p => (applySliceTo m out.1 out.2.1 out.2.2).contains p))
      | _, _ => .error .domain
    | .int _ => .error .domain

def sliceAxes : List Nat → List ViewItem → List ViewItem → Except ViewErr (List AxisOut)
  | n :: ns, sl :: sls, [] =>
    match sliceAxis n sl Option.none, sliceAxes ns sls [] with
    | .ok o, .ok os => .ok (o :: os)
    | .error e, _ => .error e
    | _, .error e => .error e
  | n :: ns, sl :: sls, it :: its =>
    match sliceAxis n sl (some it), sliceAxes ns sls its with
    | .ok o, .ok os => .ok (o :: os)
    | .error e, _ => .error e
    | _, .error e => .error e
  | [], [], [] => .ok []
  | _, _, _ => .error .domain

/-- Outer conjunction of per-axis flags, row-major. -/
def outerAnd (fls : List (List Bool)) : List Bool := (cartG fls).map fun row => row.all id

namespace Impl

/-- The full mask of a `SliceSubsetState`: `zeros(data.shape); mask[tuple(slices)] = True`. -/
def sliceFull (sh : List Nat) (sls : List ViewItem) : Except ViewErr (NArr Bool) :=
  match sliceAxes sh sls [] with
  | .ok outs => .ok ⟨sh, outerAnd (outs.filterMap AxisOut.flags?)⟩
  | .error e => .error e

/-- `SliceSubsetState.to_mask(data, view)` for `data is reference_data`, as coded. -/
def sliceMask (sh : List Nat) (sls : List ViewItem) (v : View) : Except ViewErr (NArr Bool) :=
  match v with
  | .arrays _ _ | .mask _ =>
    -- `mask = zeros(data.shape); mask[tuple(slices)] = True; return mask[view]`
    match sliceFull sh sls with
    | .ok full => full.index v
    | .error e => .error e
  | _ =>
    -- `shape = view_shape(data.shape, view)`, then one sub-slice per axis and `mask[subslices] = True`
    match viewPoints sh v with
    | .error e => .error e
    | .ok (shape, _) =>
      match sliceAxes sh sls (gridItems v) with
      | .error e => .error e
      | .ok outs =>
        if outs.any AxisOut.isMiss then .ok ⟨shape, List.replicate (prod shape) false⟩
        else .ok ⟨shape, outerAnd (outs.filterMap AxisOut.flags?)⟩

/-- The pixel-space shortcut on a regular sub-grid `ks` (per-axis coordinate lists of
`raw_comps = data[att, view]`): `subset` keeps an attribute axis whole and takes `slice(0, 1)` of
every other axis; the region is tested on the reduced arrays; the result is broadcast back to the
shape of the sub-grid when the shapes differ. -/
def roiGrid (axes : List Nat) (roi : List Nat → Bool) (ks : List (List Nat)) : NArr Bool :=
  let resShape := ks.map List.length
  let sub := mapIdxFrom (fun i (k : List Nat) => if axes.contains i then k else k.take 1) 0 ks
  let subShape := sub.map List.length
  let small := (allIdx subShape).map fun pos => roi (axes.map fun ax => (coordsAt sub pos).getD ax 0)
  if subShape != resShape then ⟨resShape, broadcastData small subShape resShape⟩
  else ⟨resShape, small⟩

/-- `RoiSubsetStateNd.to_mask(data, view)` for pixel attributes, as coded (with `C04b`). -/
def roiPix (sh : List Nat) (axes : List Nat) (roi : List Nat → Bool) (v : View) :
    Except ViewErr (NArr Bool) :=
  if isGridView v then
    -- `raw_comps[i] = data[att_i, view]` are regular sub-grids of the pixel grid with `data.ndim` axes:
    -- take index 0 on the axes that are no attribute, test, broadcast back
    match selsOf sh (gridItems v) with
    | .error e => .error e
    | .ok sels => .ok (roiGrid axes roi (sels.map Sel.toList))
  else
    -- general path: `roi.contains(*[data[att, view] for att in atts])`
    gather sh (fun idx => roi (axes.map fun ax => idx.getD ax 0)) v

/-- `view = None` is replaced by `slice(None)` (`MaskSubsetState.to_mask`). -/
def noneToSlice : View → View
  | .none => .basic [.slice Option.none Option.none Option.none]
  | v => v

/-- `ElementSubsetState`: `zeros(data.shape); result.flat[indices] = True`. -/
def elementFull (sh : List Nat) (inds : List Int) : NArr Bool :=
  ⟨sh, (List.range (prod sh)).map fun k => inds.any fun i => wrapD (prod sh) i == k⟩

/-- `state.to_mask(data, view)` per selection class, as coded. -/
def mask (sh : List Nat) : State → View → Except ViewErr (NArr Bool)
  | .base, v => gather sh (fun _ => false) v
  | .pred a p, v => emap (NArr.map p) (attr sh a v)
  | .pred2 a b p, v => zipRes p (attr sh a v) (attr sh b v)
  | .predN as p, v => emap (NArr.map p) (attrsN sh as v)
  | .table f, v => gather sh f v
  | .roiPix axes roi, v => roiPix sh axes roi v
  | .roiChunked axes roi, v =>
    -- the chunks of `iterate_chunks` partition the (reduced) arrays for every number of axes — C20
    -- `iterateChunksLoop_partition`; for a 0-d result the single chunk is `()` (`C04h`) — so the
    -- chunked evaluation is the unchunked one
    roiPix sh axes roi v
  | .loop1d _ f, v =>
    -- `mask = zeros(shape(values))`; the loop runs over the ravelled values and sets `mask.reshape(-1)[i]`
    gather sh f v
  | .sliceSt sls, v => sliceMask sh sls v
  | .unrelated, v => gather sh (fun _ => false) v
  | .sliceOf order sls, v => sliceMask sh (reorderSlices order sls) v
  | .maskSame m, v => (NArr.mk sh m).index (noneToSlice v)
  | .maskAxes axes msh m, v =>
    -- `vals = [data[c, view].astype(int) for c in cids]; result = mask[tuple(vals)]` and then
    -- `result &= (v >= 0) & (v < n) for v, n in zip(vals, data.shape)`
    gather sh (fun idx =>
      let vs := axes.map fun ax => idx.getD ax 0
      (NArr.mk msh m).get vs && (vs.zip sh).all fun p => decide (p.1 < p.2)) (noneToSlice v)
  | .maskOf links ks msh m, v =>
    gather sh (fun idx =>
      let vs := ks.map fun k => idx.getD (axisOf links k) 0
      (NArr.mk msh m).get vs && (vs.zip sh).all fun p => decide (p.1 < p.2)) (noneToSlice v)
  | .element inds, v =>
    if inds.all (inAxis (prod sh)) then
      match v with
      | .none => .ok (elementFull sh inds)
      | _ => (elementFull sh inds).index v
    else .error .indexError
  | .and a b, v => zipRes (· && ·) (mask sh a v) (mask sh b v)
  | .or a b, v => zipRes (· || ·) (mask sh a v) (mask sh b v)
  | .xor a b, v => zipRes (fun x y => x != y) (mask sh a v) (mask sh b v)
  | .inv a, v => emap (NArr.map (!·)) (mask sh a v)

end Impl

namespace Pinned

/-- `state.to_mask(data, view)` **as coded in the pinned tree**, before the repairs `C04h` and `C04i`
(kept only for the `decide`d witnesses of the old behaviour in `Props/C04.lean`; the driver never runs
it): the two leaf classes whose view handling was loud, every other selection as `Impl.mask`. -/
def mask (sh : List Nat) : State → View → Except ViewErr (NArr Bool)
  | .roiChunked axes roi, v =>
    match viewPoints sh v with
    | .error e => .error e
    | .ok (shape, _) =>
      if shape.isEmpty then .error .indexError          -- `iterate_chunks(())` raised IndexError
      else Impl.roiPix sh axes roi v
  | .loop1d indexErr f, v =>
    match viewPoints sh v with
    | .error e => .error e
    | .ok (shape, pts) =>
      match shape with
      | [] =>
        -- the "array" is a bare label: `len()` of a float raises (`indexErr = false`); `len()` of a
        -- string is its length, the loop runs, and `mask[0] = True` on the 0-d mask raises only if the
        -- element is selected (`indexErr = true`)
        if indexErr then (if pts.any f then .error .indexError else .ok ⟨[], pts.map f⟩) else .error .domain
      | [_] => .ok ⟨shape, pts.map f⟩
      | n :: _ :: _ =>
        -- `labels[i]` is a row: unhashable (TypeError) as soon as there is a row
        if n = 0 then .ok ⟨shape, pts.map f⟩ else .error .domain
  | st, v => Impl.mask sh st v

end Pinned

namespace Mutant

/-- The pixel-space shortcut of `RoiSubsetStateNd.to_mask` on a regular sub-grid when the axes that are
kept whole (`keep`) need not be the axes the attribute values vary along (`axes`); with `keep = axes`
this is `Impl.roiGrid`. -/
def roiGridKeep (keep axes : List Nat) (roi : List Nat → Bool) (ks : List (List Nat)) : NArr Bool :=
  let resShape := ks.map List.length
  let sub := mapIdxFrom (fun i (k : List Nat) => if keep.contains i then k else k.take 1) 0 ks
  let subShape := sub.map List.length
  let small := (allIdx subShape).map fun pos => roi (axes.map fun ax => (coordsAt sub pos).getD ax 0)
  if subShape != resShape then ⟨resShape, broadcastData small subShape resShape⟩
  else ⟨resShape, small⟩

/-- `RoiSubsetStateNd.to_mask` with the pixel-space shortcut **extended** to regions whose attributes are
the pixel ids along `ks` of another dataset, pixel-linked as `links` (not in the tree under test, where
these take the general path — `State.predN`; used only for the theorems about which axis map such an
extension must use): the attribute values vary along `axisOf links k`; the shortcut keeps the axes
`kmap links k` whole. -/
def roiCross (sh : List Nat) (links : List (Option Nat)) (kmap : List (Option Nat) → Nat → Nat)
    (ks : List Nat) (roi : List Nat → Bool) (v : View) : Except ViewErr (NArr Bool) :=
  if isGridView v then
    match selsOf sh (gridItems v) with
    | .error e => .error e
    | .ok sels => .ok (roiGridKeep (ks.map (kmap links)) (ks.map (axisOf links)) roi (sels.map Sel.toList))
  else
    gather sh (fun idx => roi ((ks.map (axisOf links)).map fun ax => idx.getD ax 0)) v

end Mutant

/-! ## `IndexedData` -/

/-- The reduced dataset's shape. -/
def reducedShape : List Nat → List (Option Nat) → List Nat
  | h :: hs, Option.none :: ix => h :: reducedShape hs ix
  | _ :: hs, some _ :: ix => reducedShape hs ix
  | _, _ => []

/-- `original_view = list(self.indices)` with the entries of the (padded) view put at the `None`
positions. -/
def mergeView {β : Type} (fromIdx : Nat → β) (pad : β) : List (Option Nat) → List β → List β
  | Option.none :: ix, it :: its => it :: mergeView fromIdx pad ix its
  | Option.none :: ix, [] => pad :: mergeView fromIdx pad ix []
  | some k :: ix, its => fromIdx k :: mergeView fromIdx pad ix its
  | [], _ => []

def fullSlice : ViewItem := .slice Option.none Option.none Option.none

/-- The parent view that extracts the reduced dataset: `parent[indices]`. -/
def indicesView (ix : List (Option Nat)) : View :=
  .basic (mergeView (fun k => ViewItem.int k) fullSlice ix [])

/-- Index tuple of the reduced dataset → index tuple of the parent (the fixed indices at their
positions). -/
def embed (ix : List (Option Nat)) (idx : List Nat) : List Nat := mergeView id 0 ix idx

/-- The indices fit the parent shape. -/
def ixValid : List Nat → List (Option Nat) → Bool
  | [], [] => true
  | _ :: hs, Option.none :: ix => ixValid hs ix
  | h :: hs, some k :: ix => decide (k < h) && ixValid hs ix
  | _, _ => false

/-- `IndexedData._indices_subset_state`: `SliceSubsetState(parent, [slice(None) if i is None else i])`,
the selection `compute_histogram` intersects the caller's selection with. -/
def indicesSlices (ix : List (Option Nat)) : List ViewItem :=
  ix.map fun o => match o with
    | Option.none => fullSlice
    | some k => ViewItem.int k

/-- `IndexedData._to_original_view(view)` as repaired (`C04e`). -/
def toOriginalView (psh : List Nat) (ix : List (Option Nat)) : View → Except ViewErr View
  | .none => .ok (.basic (mergeView (fun k => ViewItem.int k) fullSlice ix []))
  | .ellipsis => .ok (.basic (mergeView (fun k => ViewItem.int k) fullSlice ix []))
  | .basic items => .ok (.basic (mergeView (fun k => ViewItem.int k) fullSlice ix items))
  | .arrays s items =>
    if items.length ≠ (reducedShape psh ix).length then .error .domain
    else .ok (.arrays s (mergeView (fun k => AItem.int k) (AItem.int 0) ix items))
  | .mask m =>
    -- a Boolean mask is replaced by `np.nonzero(mask)`
    let rsh := reducedShape psh ix
    if m.length ≠ prod rsh then .error .domain
    else
      let pts := maskFilter (allIdx rsh) m
      let arrs := (List.range rsh.length).map fun k => AItem.arr (pts.map fun p => ((p.getD k 0 : Nat) : Int))
      .ok (.arrays [pts.length] (mergeView (fun k => AItem.int k) (AItem.int 0) ix arrs))

/-- `IndexedData._translate_cid` on a pixel attribute: the reduced dataset's axis `k` is the parent
axis at the `k`-th `None` position. -/
def translateAxis : List (Option Nat) → Nat → Nat
  | Option.none :: _, 0 => 0
  | Option.none :: ix, k + 1 => translateAxis ix k + 1
  | some _ :: ix, k => translateAxis ix k + 1
  | [], _ => 0

/-- Attributes as the reduced dataset names them. -/
inductive IAttr where
  /-- the reduced dataset's own pixel attribute along its axis `k`. -/
  | pixel (k : Nat)
  /-- an attribute of the parent (main, derived, linked, … and — through `_cid_to_original_cid` — the
  reduced dataset's own world attributes). -/
  | parent (a : Attr)

def translateCid (ix : List (Option Nat)) : IAttr → Attr
  | .pixel k => .pixel (translateAxis ix k)
  | .parent a => a

/-- `IndexedData.indices = value` (the setter): the `None` positions may not move. -/
def setIndices (old new : List (Option Nat)) : Option (List (Option Nat)) :=
  if new.length = old.length ∧ (old.zip new).all (fun p => p.1.isNone == p.2.isNone) then some new
  else Option.none

namespace Impl

/-- `IndexedData.get_data(cid, view)`. -/
def indexedAttr (psh : List Nat) (ix : List (Option Nat)) (a : IAttr) (v : View) :
    Except ViewErr (NArr Rat) :=
  match toOriginalView psh ix v with
  | .ok ov => attr psh (translateCid ix a) ov
  | .error e => .error e

/-- `IndexedData.get_mask(state, view)`. -/
def indexedMask (psh : List Nat) (ix : List (Option Nat)) (st : State) (v : View) :
    Except ViewErr (NArr Bool) :=
  match toOriginalView psh ix v with
  | .ok ov => mask psh st ov
  | .error e => .error e

end Impl

/-! ## Spec: the result for a view is the full-size result indexed by the view -/

namespace Spec

/-- The value of an attribute at an index tuple of a dataset of shape `sh` (what the attribute *is*,
independently of any view). -/
def attrAt (sh : List Nat) : Attr → List Nat → Rat
  | .pixel ax, idx => ((idx.getD ax 0 : Nat) : Rat)
  | .stored vals, idx => (NArr.mk sh vals).get idx
  | .map f a, idx => f (attrAt sh a idx)
  | .zip op a b, idx => op (attrAt sh a idx) (attrAt sh b idx)
  | .linked a, idx => attrAt sh a idx
  | .world c ax, idx => Coords.Spec.worldAt c ax idx
  | .pixelOf links k, idx => ((otherCoord links idx k : Nat) : Rat)

/-- Well-formed attribute descriptions: world axes exist and the coordinate object has the dataset's
dimension. -/
def attrWf (sh : List Nat) : Attr → Bool
  | .pixel _ => true
  | .stored _ => true
  | .map _ a => attrWf sh a
  | .zip _ a b => attrWf sh a && attrWf sh b
  | .linked a => attrWf sh a
  | .world c ax => decide (ax < c.n) && decide (sh.length = c.n)
  | .pixelOf links k => links.contains (some k)

/-- Coordinate `k` of an axis of length `n` is selected by an entry of a `SliceSubsetState`. -/
def stateEntryHas (n : Nat) : ViewItem → Nat → Bool
  | .int i, k => k == wrapD n i
  | .slice a b c, k =>
    match sliceIndices a b c n with
    | some (bs, es, ss) => (pyRange bs es ss.toNat).contains (k : Int)
    | Option.none => false

def sliceHolds : List Nat → List ViewItem → List Nat → Bool
  | n :: ns, sl :: sls, k :: ks => stateEntryHas n sl k && sliceHolds ns sls ks
  | _, _, _ => true

/-- Membership of an index tuple in a selection (what the selection *is*). -/
def holds (sh : List Nat) : State → List Nat → Bool
  | .base, _ => false
  | .pred a p, idx => p (attrAt sh a idx)
  | .pred2 a b p, idx => p (attrAt sh a idx) (attrAt sh b idx)
  | .predN as p, idx => p (as.map fun a => attrAt sh a idx)
  | .table f, idx => f idx
  | .roiPix axes roi, idx => roi (axes.map fun ax => idx.getD ax 0)
  | .roiChunked axes roi, idx => roi (axes.map fun ax => idx.getD ax 0)
  | .loop1d _ f, idx => f idx
  | .sliceSt sls, idx => sliceHolds sh sls idx
  | .unrelated, _ => false
  | .sliceOf order sls, idx => sliceHolds sh (reorderSlices order sls) idx
  | .maskSame m, idx => (NArr.mk sh m).get idx
  | .maskAxes axes msh m, idx =>
    let vs := axes.map fun ax => idx.getD ax 0
    (NArr.mk msh m).get vs && (vs.zip sh).all fun p => decide (p.1 < p.2)
  | .maskOf links ks msh m, idx =>
    -- the element of the mask at the matching point of the other dataset (its coordinates along `ks`)
    let vs := ks.map fun k => otherCoord links idx k
    (NArr.mk msh m).get vs && (vs.zip sh).all fun p => decide (p.1 < p.2)
  | .element inds, idx => inds.any fun i => wrapD (prod sh) i == flat sh idx
  | .and a b, idx => holds sh a idx && holds sh b idx
  | .or a b, idx => holds sh a idx || holds sh b idx
  | .xor a b, idx => holds sh a idx != holds sh b idx
  | .inv a, idx => !holds sh a idx

/-- A positive-step slice entry. -/
def posSliceEntry : ViewItem → Bool
  | .int _ => false
  | .slice _ _ c => match c with | Option.none => true | some s => decide (0 < s)

/-- Well-formed selections on a dataset of shape `sh`. -/
def stateWf (sh : List Nat) : State → Bool
  | .pred a _ => attrWf sh a
  | .pred2 a b _ => attrWf sh a && attrWf sh b
  | .predN as _ => as.all (attrWf sh)
  | .sliceSt sls => sls.length == sh.length && sls.all posSliceEntry
  | .sliceOf order sls => order.length == sh.length && sls.all posSliceEntry
  | .maskOf links ks _ _ => ks.all (fun k => links.contains (some k)) && !sh.isEmpty
  | .maskSame m => m.length == prod sh && !sh.isEmpty
  | .maskAxes _ _ _ => !sh.isEmpty
  | .element inds => inds.all (inAxis (prod sh))
  | .and a b => stateWf sh a && stateWf sh b
  | .or a b => stateWf sh a && stateWf sh b
  | .xor a b => stateWf sh a && stateWf sh b
  | .inv a => stateWf sh a
  | _ => true

/-- `full[view]` when the full-size result exists. -/
def viewOfRes {α : Type} [Inhabited α] (full : Except ViewErr (NArr α)) (v : View) :
    Except ViewErr (NArr α) :=
  match full with
  | .ok f => f.index v
  | .error e => .error e

/-- What C04 demands of `get_data(cid, view)` / `get_mask(state, view)` given the full-size result
`full` (the result for `view = None`): `out` is `full[view]` — same shape, same values. -/
def viewOf {α : Type} [Inhabited α] (full : NArr α) (v : View) : Except ViewErr (NArr α) := full.index v

/-- The same for a reduced dataset, given the *parent's* full-size result: `parent[indices][view]`. -/
def indexedViewOf {α : Type} [Inhabited α] (parentFull : NArr α) (ix : List (Option Nat)) (v : View) :
    Except ViewErr (NArr α) :=
  match parentFull.index (indicesView ix) with
  | .ok red => red.index v
  | .error e => .error e

end Spec

/-! ## statistics and histograms of a reduced dataset (exact, over integers) -/

/-- Values selected by an optional mask. -/
def selectVals {α : Type} (vals : List α) : Option (List Bool) → List α
  | Option.none => vals
  | some m => maskFilter vals m

/-- `sum` / `minimum` / `maximum` of a list of rationals; `none` (NaN) when nothing is selected (C10). -/
def statOf (stat : String) (xs : List Rat) : Option Rat :=
  match stat with
  | "sum" => match xs with | [] => Option.none | _ => some (xs.foldl (· + ·) 0)
  | "minimum" => match xs with | [] => Option.none | x :: r => some (r.foldl min x)
  | "maximum" => match xs with | [] => Option.none | x :: r => some (r.foldl max x)
  | _ => Option.none

/-- Counts of the integer values `lo, lo+1, …, lo+bins-1`. -/
def histOf (lo : Int) (bins : Nat) (xs : List Rat) : List Nat :=
  (List.range bins).map fun (k : Nat) => (xs.filter fun x => x == ((lo + (k : Int) : Int) : Rat)).length

end GlueVerif.C04
