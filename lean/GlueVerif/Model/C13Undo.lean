/-
C13 model: a `Session` (data collection, subset groups, per-dataset subset lists, edit-subset choice,
edit mode) and its `CommandStack`, as coded in `glue/core/command.py` (`CommandStack.do/undo/redo`,
`MAX_UNDO`, `AddData`, `RemoveData`, `ApplySubsetState`, `ApplyROI`),
`glue/core/edit_subset_mode.py` (`EditSubsetMode.update/_combine_data`, the six mode functions),
`glue/core/data_collection.py` (`append`, `remove`, `new_subset_group`, `remove_subset_group`) and
`glue/core/subset_group.py` (`_add_data`, `_remove_data`, `register`).  Core Lean only.

Versions.  The command stack is parametrised by a command semantics `Sem` (what `cmd.do` and
`cmd.undo` do to the session):
* `Impl` — the code **with** `fix: F4-apply-undo-created-group` (`ApplySubsetState/ApplyROI.undo` =
  `_restore_subsets`) and `fix: F4b-add-remove-data-undo` (`AddData.do` records whether the dataset
  was absent and `undo` removes it only then; `RemoveData.do` records the position of the dataset,
  `None` if it was absent, and `undo` puts it back there with `DataCollection.insert`);
* `PreF4b` — the code with the first fix only: `undo` of `AddData` is an unconditional `remove`,
  `undo` of `RemoveData` an unconditional `append` (at the end of the collection);
* `Old` — the code before both fixes (delete the subsets that are not in `old_states`, restore the
  recorded per-subset states; nothing about groups or `edit_subset`).

Abstraction of object identity.
* datasets: natural numbers `0 … nData-1` (they exist before and after being in the collection);
* a subset group is named by the value of `DataCollection._sg_count` when it was created (`id`);
  with the fix `undo` rolls the counter back, so the group that `redo` creates gets the same
  name, default label and default colour as the one `undo` removed — in Python it is a new object
  that is observationally equal; the stack discipline guarantees that no command on either stack
  still refers to the removed object (every later command was undone before and re-records its
  snapshot when it is redone);
* a `GroupedSubset` is named by the pair (dataset, group): `dsubs d` is `Data.subsets` of dataset
  `d` as the list of the groups its subsets belong to (C06 proves there is exactly one per pair).
-/
namespace GlueVerif.C13Undo

/-! ## Selections -/

/-- A subset state: `atom k` is the k-th state / ROI of the harness' pool (opaque), composites as
built by `SubsetState.__and__/__or__/__xor__/__invert__`. -/
inductive Sel where
  | atom (k : Nat)
  | and (a b : Sel)
  | or (a b : Sel)
  | xor (a b : Sel)
  | not (a : Sel)
  deriving DecidableEq, Repr

/-- Denotation of a selection on one dataset, given the masks of the atoms on that dataset. -/
def Sel.eval (atoms : Nat → List Bool) : Sel → List Bool
  | .atom k => atoms k
  | .and a b => List.zipWith (· && ·) (a.eval atoms) (b.eval atoms)
  | .or a b => List.zipWith (· || ·) (a.eval atoms) (b.eval atoms)
  | .xor a b => List.zipWith (fun x y => x != y) (a.eval atoms) (b.eval atoms)
  | .not a => (a.eval atoms).map (!·)

/-- `ReplaceMode`, `AndMode`, `OrMode`, `XorMode`, `AndNotMode`, `NewMode`. -/
inductive Mode where
  | replace | and | or | xor | andNot | new
  deriving DecidableEq, Repr

/-- The mode function applied to one edited group: `mode(edit_subset, new_state)` with
`new = new_state`, `old = edit_subset.subset_state`.  (`NewMode` as a function replaces, like
`ReplaceMode`; `_combine_data` never calls it, it creates a group instead.) -/
def combine : Mode → Sel → Sel → Sel
  | .replace, new, _ => new
  | .new, new, _ => new
  | .and, new, old => .and new old
  | .or, new, old => .or new old
  | .xor, new, old => .xor new old
  | .andNot, new, old => .and old (.not new)

/-! ## Session state -/

/-- A `SubsetGroup`: identity, label (`'Subset n'` ↦ `n`), style (index into
`settings.SUBSET_COLORS`), `subset_state`. -/
structure Group where
  id : Nat
  label : Nat
  style : Nat
  state : Sel
  deriving DecidableEq, Repr

/-- Point update of a table indexed by object id. -/
def upd {α : Type} (f : Nat → α) (k : Nat) (v : α) : Nat → α := fun x => if x = k then v else f x

/-- The session without its command stack. -/
@[ext] structure Body where
  /-- number of `Data` objects of the case (only used to bound what is observed). -/
  nData : Nat
  /-- `len(settings.SUBSET_COLORS)`. -/
  nColors : Nat
  /-- `DataCollection._data`, in order. -/
  datasets : List Nat
  /-- `DataCollection._subset_groups`, in order. -/
  groups : List Group
  /-- `DataCollection._sg_count`. -/
  sgCount : Nat
  /-- `Data.subsets` of every dataset, as the ids of the groups of its subsets. -/
  dsubs : Nat → List Nat
  /-- `EditSubsetMode._edit_subset` (group ids). -/
  edit : List Nat
  /-- `EditSubsetMode._mode`. -/
  mode : Mode

def liveIds (b : Body) : List Nat := b.groups.map (·.id)

/-- `DataCollection.append(d)`: no-op if present; `_data.append`, then every subscribed group (the
live groups, in order) runs `_add_data`: one new `GroupedSubset` attached to `d`. -/
def appendData (d : Nat) (b : Body) : Body :=
  if d ∈ b.datasets then b
  else { b with datasets := b.datasets ++ [d], dsubs := upd b.dsubs d (b.dsubs d ++ liveIds b) }

/-- `DataCollection.remove(d)`: no-op if absent; `_data.remove`, then every subscribed group runs
`_remove_data` (with `fix: F3`): its subset on `d` is dropped and `delete()`d, i.e. detached
(`data._subsets.remove`, first occurrence). -/
def removeData (d : Nat) (b : Body) : Body :=
  if d ∈ b.datasets then
    { b with datasets := b.datasets.erase d,
             dsubs := upd b.dsubs d ((liveIds b).foldl (fun l g => l.erase g) (b.dsubs d)) }
  else b

/-- `new_subset_group(subset_state=s)`: colour `SUBSET_COLORS[_sg_count % len]`, `_sg_count += 1`,
label `'Subset %i' % _sg_count`, `_subset_groups.append`, `register`: one subset on every dataset
of the collection. -/
def newGroup (s : Sel) (b : Body) : Body :=
  let g : Group := ⟨b.sgCount + 1, b.sgCount + 1, b.sgCount % b.nColors, s⟩
  { b with groups := b.groups ++ [g], sgCount := b.sgCount + 1,
           dsubs := fun d => if d ∈ b.datasets then b.dsubs d ++ [g.id] else b.dsubs d }

/-- `remove_subset_group(grp)`: `_subset_groups.remove(grp)`, every subset of the group is
`delete()`d (detached from its dataset), the group is unsubscribed. -/
def removeGroup (gid : Nat) (b : Body) : Body :=
  { b with groups := b.groups.filter (fun g => g.id != gid),
           dsubs := fun d => (b.dsubs d).erase gid }

/-- `group.subset_state = f(group.subset_state)` for the group object `gid`. -/
def setState (gid : Nat) (f : Sel → Sel) (b : Body) : Body :=
  { b with groups := b.groups.map fun g => if g.id = gid then { g with state := f g.state } else g }

/-- `EditSubsetMode._combine_data(new_state, override_mode)` with the effective mode `m`
(`override_mode or self.mode`): a new group (which becomes the edit subset) when nothing is being
edited or the mode is `NewMode`; otherwise `for s in edit_subset: mode(s, new_state)`. -/
def combineData (s : Sel) (m : Mode) (b : Body) : Body :=
  if b.edit = [] ∨ m = .new then
    { newGroup s b with edit := [b.sgCount + 1] }
  else
    b.edit.foldl (fun b gid => setState gid (combine m s) b) b

/-! ## Commands -/

/-- Constructor arguments of a command.  `apply k ov` = `ApplySubsetState(subset_state = atom k,
override_mode = ov)`; `applyRoi k` = `ApplyROI(roi = k, apply_func = λ roi:
edit_subset_mode.update(dc, roi_to_subset_state(roi)))` (the resulting state is `atom k`). -/
inductive CmdSpec where
  | addData (d : Nat)
  | removeData (d : Nat)
  | apply (k : Nat) (ov : Option Mode)
  | applyRoi (k : Nat)
  deriving DecidableEq, Repr

/-- What `ApplySubsetState/ApplyROI.do` record on the command object: `old_states` (per subset:
dataset, group, state), and — with the fix — `old_groups` (group, state), `old_sg_count`,
`old_edit_subset`. -/
structure Saved where
  subs : List (Nat × Nat × Sel)
  groups : List (Nat × Sel)
  sgCount : Nat
  edit : List Nat
  /-- recorded by `AddData.do` (`not self._added`) and `RemoveData.do` (`self._index is not None`)
  of the repaired code: was the dataset in the collection? -/
  present : Bool := false
  /-- recorded by `RemoveData.do` of the repaired code: `self._index`, the position of the dataset
  in the collection (meaningful only if `present`). -/
  index : Nat := 0
  deriving DecidableEq, Repr

def Saved.empty : Saved := { subs := [], groups := [], sgCount := 0, edit := [] }

/-- A command object: its arguments and what its last `do` recorded. -/
structure Cmd where
  spec : CmdSpec
  saved : Saved
  deriving DecidableEq, Repr

def stateOf (b : Body) (gid : Nat) : Sel :=
  ((b.groups.find? (fun g => g.id == gid)).map (·.state)).getD (.atom 0)

/-- `_save_subsets`. -/
def save (b : Body) : Saved :=
  { subs := b.datasets.flatMap fun d => (b.dsubs d).map fun g => (d, g, stateOf b g),
    groups := b.groups.map fun g => (g.id, g.state),
    sgCount := b.sgCount,
    edit := b.edit }

/-- `grp.subset_state = state` for the recorded `(grp, state)` pair of group `g`, if there is one. -/
def restoreGroup (sv : List (Nat × Sel)) (g : Group) : Group :=
  match sv.lookup g.id with
  | some s => { g with state := s }
  | none => g

/-- `_restore_subsets` (the fix): remove the groups that are not in `old_groups` and, if there
were any, roll `_sg_count` back; (delete other subsets that are not in `old_states` — there are
none: every subset belongs to a group;) restore the state of every recorded group; restore
`edit_subset`.  (The loop `for k, v in old_states.items(): k.subset_state = v` writes, through the
`Pointer`, the recorded state of `k.group`, which the following loop over `old_groups` writes
again: every subset in `old_states` belongs to a group in `old_groups`.) -/
def restore (sv : Saved) (b : Body) : Body :=
  let oldIds := sv.groups.map (·.1)
  let created := (liveIds b).filter (fun i => !oldIds.contains i)
  let b1 := created.foldl (fun b i => removeGroup i b) b
  let b2 := if created = [] then b1 else { b1 with sgCount := sv.sgCount }
  let b3 := { b2 with groups := b2.groups.map (restoreGroup sv.groups) }
  { b3 with edit := sv.edit }

/-- `ApplySubsetState/ApplyROI.undo` **before** the fix: `for data in dc: for subset in
data.subsets: if subset not in old_states: subset.delete()`, then `for k, v in old_states.items():
k.subset_state = v` (through the `Pointer`: the state of `k.group`).  In the (dataset, group)
naming a re-created subset cannot be told from the recorded one, so this model is only used for
histories without `RemoveData` between the command and its undo (the `decide`d witnesses). -/
def restoreOld (sv : Saved) (b : Body) : Body :=
  let keys := sv.subs.map fun e => (e.1, e.2.1)
  let b1 := { b with dsubs := fun d =>
                if d ∈ b.datasets then (b.dsubs d).filter (fun g => keys.contains (d, g)) else b.dsubs d }
  sv.subs.foldl (fun b e => setState e.2.1 (fun _ => e.2.2) b) b1

/-- `DataCollection.insert(i, d)` (added by `fix: F4b`; `append(d)` is `insert(len(_data), d)`):
no-op if present; `_data.insert(i, d)` — Python clamps a position beyond the end to the end —, then
the `DataCollectionAddMessage`: every live group attaches one new `GroupedSubset` to `d`. -/
def insertData (i d : Nat) (b : Body) : Body :=
  if d ∈ b.datasets then b
  else { b with datasets := b.datasets.insertIdx (min i b.datasets.length) d,
                dsubs := upd b.dsubs d (b.dsubs d ++ liveIds b) }

/-- the selection commands' `do` (both versions of `AddData` / `RemoveData` share it). -/
def applyDo (k : Nat) (ov : Option Mode) (b : Body) : Body × Saved :=
  -- `if override_mode is None and len(mode._edit_subset) == 0: override_mode = ReplaceMode`
  let ov' : Option Mode := match ov with
    | some m => some m
    | none => if b.edit = [] then some .replace else none
  (combineData (.atom k) (ov'.getD b.mode) b, save b)

/-- `cmd.do(session)`: the new session and what the command recorded.  `AddData.do`:
`self._added = self.data not in dc; dc.append(self.data)`; `RemoveData.do`: `self._index =
dc.index(self.data) if self.data in dc else None; dc.remove(self.data)`. -/
def cmdDo : CmdSpec → Body → Body × Saved
  | .addData d, b => (appendData d b, { Saved.empty with present := b.datasets.contains d })
  | .removeData d, b =>
    (removeData d b, { Saved.empty with present := b.datasets.contains d, index := b.datasets.idxOf d })
  | .apply k ov, b => applyDo k ov b
  | .applyRoi k, b => (combineData (.atom k) b.mode b, save b)

/-- `cmd.undo(session)` (`fixed`: with / without `fix: F4` for the selection commands).
`AddData.undo`: `if self._added: dc.remove(self.data)`; `RemoveData.undo`: `if self._index is not
None: dc.insert(self._index, self.data)`. -/
def cmdUndo (fixed : Bool) (c : Cmd) (b : Body) : Body :=
  match c.spec with
  | .addData d => if c.saved.present then b else removeData d b
  | .removeData d => if c.saved.present then insertData c.saved.index d b else b
  | .apply _ _ => if fixed then restore c.saved b else restoreOld c.saved b
  | .applyRoi _ => if fixed then restore c.saved b else restoreOld c.saved b

/-! ### `AddData` / `RemoveData` before `fix: F4b-add-remove-data-undo` (`PreF4b`, `Old`) -/

/-- `AddData.do = dc.append`, `RemoveData.do = dc.remove`, nothing recorded. -/
def PreF4b.cmdDo : CmdSpec → Body → Body × Saved
  | .addData d, b => (appendData d b, Saved.empty)
  | .removeData d, b => (removeData d b, Saved.empty)
  | sp, b => C13Undo.cmdDo sp b

/-- `AddData.undo = dc.remove`, `RemoveData.undo = dc.append`, unconditionally. -/
def PreF4b.cmdUndo (fixed : Bool) (c : Cmd) (b : Body) : Body :=
  match c.spec with
  | .addData d => removeData d b
  | .removeData d => appendData d b
  | _ => C13Undo.cmdUndo fixed c b

/-! ## The command stack -/

/-- `MAX_UNDO`. -/
def maxUndo : Nat := 50

structure State where
  body : Body
  /-- `CommandStack._command_stack`, most recent first. -/
  done : List Cmd
  /-- `CommandStack._undo_stack`, next to be redone first. -/
  undone : List Cmd

/-- A command semantics: what `cmd.do(session)` (new session, what the command recorded) and
`cmd.undo(session)` do. -/
structure Sem where
  doF : CmdSpec → Body → Body × Saved
  undoF : Cmd → Body → Body

/-- A letter of a history. -/
inductive Op where
  | do (sp : CmdSpec)
  | undo
  | redo
  deriving DecidableEq, Repr

namespace Sem

/-- `CommandStack.do(cmd)`: `_command_stack.append(cmd); cmd.do(session);
_command_stack = _command_stack[-MAX_UNDO:]; _undo_stack = []`. -/
def doCmd (S : Sem) (sp : CmdSpec) (st : State) : State :=
  let r := S.doF sp st.body
  { body := r.1, done := (⟨sp, r.2⟩ :: st.done).take maxUndo, undone := [] }

/-- `CommandStack.undo()`: `IndexError` (`true`, nothing changes) on an empty stack; otherwise pop,
push on the undo stack, `c.undo(session)`. -/
def undoCmd (S : Sem) (st : State) : State × Bool :=
  match st.done with
  | [] => (st, true)
  | c :: rest => ({ body := S.undoF c st.body, done := rest, undone := c :: st.undone }, false)

/-- `CommandStack.redo()`: `IndexError` on an empty undo stack; otherwise pop, `c.do(session)`
(which records afresh), append to the command stack (no truncation here). -/
def redoCmd (S : Sem) (st : State) : State × Bool :=
  match st.undone with
  | [] => (st, true)
  | c :: rest =>
    let r := S.doF c.spec st.body
    ({ body := r.1, done := ⟨c.spec, r.2⟩ :: st.done, undone := rest }, false)

/-- One step of the stack: the new state and whether `IndexError` was raised. -/
def step (S : Sem) (st : State) : Op → State × Bool
  | .do sp => (S.doCmd sp st, false)
  | .undo => S.undoCmd st
  | .redo => S.redoCmd st

def run (S : Sem) (st : State) (w : List Op) : State := w.foldl (fun st op => (S.step st op).1) st

end Sem

/-- the code as it is: with `fix: F4-apply-undo-created-group` and `fix: F4b-add-remove-data-undo`. -/
def Impl : Sem := ⟨cmdDo, cmdUndo true⟩
/-- the code with the first fix only (`AddData` / `RemoveData` undone unconditionally, at the end). -/
def PreF4b : Sem := ⟨PreF4b.cmdDo, PreF4b.cmdUndo true⟩
/-- the code before both fixes. -/
def Old : Sem := ⟨PreF4b.cmdDo, PreF4b.cmdUndo false⟩

/-! ## Non-command set-up of a session (what the harness does before the history starts) -/

inductive Setup where
  /-- `dc.append(d)`. -/
  | append (d : Nat)
  /-- `dc.new_subset_group(subset_state = atom k)`. -/
  | group (k : Nat)
  /-- `session.edit_subset_mode.edit_subset = [groups…]`. -/
  | edit (ids : List Nat)
  /-- `session.edit_subset_mode.mode = m`. -/
  | mode (m : Mode)
  deriving DecidableEq, Repr

def Body.init (nData nColors : Nat) : Body :=
  { nData := nData, nColors := nColors, datasets := [], groups := [], sgCount := 0,
    dsubs := fun _ => [], edit := [], mode := .replace }

def setupStep (b : Body) : Setup → Body
  | .append d => appendData d b
  | .group k => newGroup (.atom k) b
  | .edit ids => { b with edit := ids }
  | .mode m => { b with mode := m }

def setup (nData nColors : Nat) (ops : List Setup) : Body := ops.foldl setupStep (Body.init nData nColors)

/-- A session in state `b` with a fresh command stack. -/
def fresh (b : Body) : State := ⟨b, [], []⟩

/-! ## What is observed -/

/-- Position of a group object in `dc.subset_groups` (`none`: not a live group). -/
def pos (b : Body) (gid : Nat) : Option Nat := (liveIds b).findIdx? (· == gid)

/-- `observe`: the datasets in order, the groups in order with label, style and selection, the
edit-subset choice, and the subset list of every dataset (subsets named by the position of their
group) — what the property calls the data collection, its subset groups, their selections and the
edit-subset choice. -/
structure Obs where
  datasets : List Nat
  groups : List (Nat × Nat × Sel)
  edit : List (Option Nat)
  dsubs : List (List (Option Nat))
  deriving DecidableEq, Repr

def observe (b : Body) : Obs :=
  { datasets := b.datasets,
    groups := b.groups.map fun g => (g.label, g.style, g.state),
    edit := b.edit.map (pos b),
    dsubs := (List.range b.nData).map fun d => (b.dsubs d).map (pos b) }

/-- The selection masks: for every dataset of the case, for every subset it carries, the mask of
the subset's selection (`atoms d k` = mask of atom `k` on dataset `d`). -/
def masks (atoms : Nat → Nat → List Bool) (b : Body) : List (List (List Bool)) :=
  (List.range b.nData).map fun d => (b.dsubs d).map fun g => (stateOf b g).eval (atoms d)

/-! ## Well-formed sessions (the hypothesis on the state a history starts from) -/

structure WF (b : Body) : Prop where
  nodupD : b.datasets.Nodup
  nodupG : (liveIds b).Nodup
  /-- group names were drawn from the counter. -/
  idLe : ∀ g ∈ b.groups, g.id ≤ b.sgCount
  /-- a dataset of the collection carries one subset per live group, in group order (C06). -/
  inSubs : ∀ d ∈ b.datasets, b.dsubs d = liveIds b
  /-- a dataset outside the collection carries none (C06 with `fix: F3`). -/
  outSubs : ∀ d, d ∉ b.datasets → b.dsubs d = []

/-- Decidable part of `WF` restricted to the datasets of the case (used by the driver). -/
def wfOk (b : Body) : Bool :=
  decide b.datasets.Nodup && decide (liveIds b).Nodup &&
  b.groups.all (fun g => decide (g.id ≤ b.sgCount)) &&
  b.datasets.all (fun d => b.dsubs d == liveIds b) &&
  (List.range b.nData).all (fun d => b.datasets.contains d || (b.dsubs d).isEmpty)

/-! ## Which commands the code before `fix: F4b` undid exactly

Before the fix `AddData(d)` of a dataset that is already in the collection did nothing, but its
`undo` removed the dataset; `RemoveData(d)` of an absent dataset did nothing, but its `undo`
appended it; `RemoveData.undo` re-appended at the *end* of the collection.  `clean` excludes
exactly these (it is the hypothesis under which `PreF4b` refines the zipper; `Impl` needs none). -/
def clean (sp : CmdSpec) (b : Body) : Bool :=
  match sp with
  | .addData d => !b.datasets.contains d
  | .removeData d => b.datasets.getLast? == some d
  | _ => true

/-- every `do` letter of the history satisfies `cl` in the state in which it is executed. -/
def Sem.cleanWord (S : Sem) (cl : CmdSpec → Body → Bool) (st : State) : List Op → Bool
  | [] => true
  | op :: w =>
    (match op with
     | .do sp => cl sp st.body
     | _ => true) && S.cleanWord cl (S.step st op).1 w

/-! ## Spec: a list zipper of observations

The specification knows nothing about commands: it is a cursor in the list of observed states.
`do` inserts the new observation after the cursor, drops everything beyond it, and forgets the
oldest entry when more than `MAX_UNDO` precede the cursor; `undo` / `redo` move the cursor and the
observation must be the one stored there; at either end they raise and nothing changes.  The
observed stack sizes must be the numbers of entries before / after the cursor. -/
namespace Spec

structure Zipper (α : Type) where
  past : List α
  cur : α
  future : List α

inductive Letter where
  | do | undo | redo
  deriving DecidableEq, Repr

/-- One observed step: which stack method was called, whether it raised `IndexError`, the
observation afterwards, `len(_command_stack)`, `len(_undo_stack)`. -/
structure Step (α : Type) where
  letter : Letter
  err : Bool
  obs : α
  nDone : Nat
  nUndone : Nat

def Zipper.start {α : Type} (o : α) : Zipper α := ⟨[], o, []⟩

/-- the zipper after an accepted step, `none` if the step contradicts the specification. -/
def Zipper.step {α : Type} [BEq α] (z : Zipper α) (s : Step α) : Option (Zipper α) :=
  let sizes (z' : Zipper α) : Option (Zipper α) :=
    if s.nDone == z'.past.length && s.nUndone == z'.future.length then some z' else none
  match s.letter with
  | .do => if s.err then none else sizes ⟨(z.cur :: z.past).take maxUndo, s.obs, []⟩
  | .undo =>
    match z.past with
    | [] => if s.err && s.obs == z.cur then sizes z else none
    | p :: ps => if !s.err && s.obs == p then sizes ⟨ps, p, z.cur :: z.future⟩ else none
  | .redo =>
    match z.future with
    | [] => if s.err && s.obs == z.cur then sizes z else none
    | f :: fs => if !s.err && s.obs == f then sizes ⟨z.cur :: z.past, f, fs⟩ else none

/-- the zipper after a whole trace. -/
def Zipper.run {α : Type} [BEq α] (z : Zipper α) : List (Step α) → Option (Zipper α)
  | [] => some z
  | s :: rest => match z.step s with
    | none => none
    | some z' => z'.run rest

/-- **The property oracle**: the trace is a walk of the cursor. -/
def check {α : Type} [BEq α] (init : α) (trace : List (Step α)) : Bool :=
  ((Zipper.start init).run trace).isSome

/-- index of the first step the specification rejects (`none`: accepted). -/
def firstBad {α : Type} [BEq α] (z : Zipper α) (i : Nat) : List (Step α) → Option Nat
  | [] => none
  | s :: rest => match z.step s with
    | none => some i
    | some z' => firstBad z' (i + 1) rest

end Spec

def letterOf : Op → Spec.Letter
  | .do _ => .do
  | .undo => .undo
  | .redo => .redo

/-- The trace of a history on the model: one observed step per letter. -/
def Sem.trace (S : Sem) (st : State) : List Op → List (Spec.Step Obs)
  | [] => []
  | op :: w =>
    let r := S.step st op
    ⟨letterOf op, r.2, observe r.1.body, r.1.done.length, r.1.undone.length⟩ :: S.trace r.1 w

end GlueVerif.C13Undo
