import GlueVerif.Model.Coords
/-
C15, round-3 strengthening: **histories on one dataset object**.

The world components and the coordinate links of a `Data` object are functions of two pieces of its
state only: its current `shape` and its current `coords`.  `CoordData` is that state; `HOp` are the
operations a dataset goes through between two reads:

* `update sh c`  — `Data.update_values_from_data(other)`: `self._shape = other._shape`, then
  `self.coords = other.coords` (the same object, an equal but distinct one, another one, `None`);
* `setCoords c`  — `data.coords = c`;
* `touch`        — `update_components`, adding / removing an unrelated component: neither changes;
* `readWorld a v`, `readP2W i v`, `readW2P i v` — `data[world_cid, view]`, `link.compute(data, view)`.

`Impl.run` is the code of the tree under test: `CoordinateComponent._calculate` and
`CoordinateComponentLink.compute` hold **no state of their own** — every read recomputes from
`self._data.shape` / `self._data.coords` (the links are re-created by `_update_world_components`
whenever `coords` is assigned).  `Spec.run` is what the property demands: every read is the
transformation of the *current* coordinate object applied to the *current* pixel grid, then the view.
`Cached.run` is the seeded variant `C15c`: the full-grid world values of the first non-optimised read
are kept in the component and survive `update` (witness in `Props/C15.lean`).
-/
namespace GlueVerif.Coords
open GlueVerif.ArrayUtil

/-- The part of the state of a `Data` object that world components and coordinate links depend on. -/
structure CoordData where
  shape : List Nat
  coords : Option Coord

inductive HOp where
  | readWorld (a : Nat) (v : View)
  | readP2W (i : Nat) (v : View)
  | readW2P (i : Nat) (v : View)
  | update (sh : List Nat) (c : Option Coord)
  | setCoords (c : Option Coord)
  | touch

/-- The state after an operation (reads and `touch` leave it unchanged). -/
def CoordData.apply (s : CoordData) : HOp → CoordData
  | .update sh c => ⟨sh, c⟩
  | .setCoords c => ⟨s.shape, c⟩
  | _ => s

/-- What a read observes: `none` = the dataset has no coordinates, hence no world component / link. -/
abbrev Obs := Option (Except ViewErr Arr)

/-- How world components and the two kinds of link are evaluated on a (coords, shape) pair. -/
structure Readers where
  world : Coord → List Nat → Nat → View → Except ViewErr Arr
  p2w : Coord → List Nat → Nat → View → Except ViewErr Arr
  w2p : Coord → List Nat → Nat → View → Except ViewErr Arr

/-- The observation of an operation in state `s` (`none`: the operation is not a read). -/
def readOp (R : Readers) (s : CoordData) : HOp → Option Obs
  | .readWorld a v => some (s.coords.map fun c => R.world c s.shape a v)
  | .readP2W i v => some (s.coords.map fun c => R.p2w c s.shape i v)
  | .readW2P i v => some (s.coords.map fun c => R.w2p c s.shape i v)
  | _ => none

/-- A history on one dataset object: the observations of its reads, each taken in the state that
the operations before it have produced. -/
def runWith (R : Readers) : CoordData → List HOp → List Obs
  | _, [] => []
  | s, op :: rest => (readOp R s op).toList ++ runWith R (s.apply op) rest

namespace Impl
def readers : Readers := ⟨worldView, linkP2W, linkW2P⟩
/-- The tree under test: nothing but `data.shape` and `data.coords` enters a read. -/
def run := runWith readers
end Impl

namespace Spec
def readers : Readers := ⟨worldView, linkP2W, linkW2P⟩
/-- The property: every read is the transformation applied to the current pixel grid. -/
def run := runWith readers
end Spec

/-! ### decidable hypotheses -/

/-- The state is one a `Data` object can be in: no coordinates, or a well-formed coordinate object
of the dataset's dimension. -/
def CoordData.ok (s : CoordData) : Bool :=
  match s.coords with
  | none => true
  | some c => c.wf && s.shape.length == c.n

/-- A read addresses an existing axis. -/
def opOk (s : CoordData) : HOp → Bool
  | .readWorld a _ | .readP2W a _ | .readW2P a _ =>
    match s.coords with
    | none => true
    | some c => decide (a < c.n)
  | _ => true

/-- Every state the history goes through is `ok` and every read addresses an existing axis. -/
def histOk : CoordData → List HOp → Bool
  | s, [] => s.ok
  | s, op :: rest => s.ok && opOk s op && histOk (s.apply op) rest

/-! ### the seeded variant: a grid cached in the component object -/

namespace Cached

/-- Dataset state + per world axis the full-grid values kept by the `CoordinateComponent`. -/
structure St where
  d : CoordData
  grid : List (Nat × Arr)

/-- `self._world_grid[view]` for the views that take the non-optimised branch. -/
def applyView (g : Arr) : View → Except ViewErr Arr
  | .mask m =>
    if m.length ≠ prod g.shape then .error .indexError
    else let vals := maskFilter g.data m; .ok ⟨[vals.length], vals⟩
  | _ => .ok g

def nonOpt : View → Bool
  | .all => true
  | .mask _ => true
  | _ => false

def readWorld (s : St) (a : Nat) (v : View) : Obs × St :=
  match s.d.coords with
  | none => (none, s)
  | some c =>
    if nonOpt v then
      match s.grid.lookup a with
      | some g => (some (applyView g v), s)
      | none =>
        match Impl.worldView c s.d.shape a .all with
        | .ok g => (some (applyView g v), { s with grid := (a, g) :: s.grid })
        | .error e => (some (.error e), s)
    else (some (Impl.worldView c s.d.shape a v), s)

/-- World components are re-created (cache gone) when `coords` is assigned; `update` with the
coordinates the dataset already has keeps the component objects — and their cache. -/
def run : St → List HOp → List Obs
  | _, [] => []
  | s, .readWorld a v :: rest => let r := readWorld s a v; r.1 :: run r.2 rest
  | s, .setCoords c :: rest => run ⟨s.d.apply (.setCoords c), []⟩ rest
  | s, op :: rest => (readOp Impl.readers s.d op).toList ++ run { s with d := s.d.apply op } rest

end Cached

end GlueVerif.Coords
