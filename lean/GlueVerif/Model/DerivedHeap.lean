import GlueVerif.Model.Derived
/-!
C14, object identity of links (`ComponentLink` / `BinaryComponentLink` / `ParsedComponentLink`).

`Model/Derived.lean` treats a link as a *value* (an expression tree).  The real links are Python
**objects**: a `BinaryComponentLink` keeps its operands — which may be other link objects, used by
reference — and a cached input list `_from` (a Python list object); `update_id` rewrites link objects
**in place** (`replace_ids`).  A link object may be the operand of several larger expressions and
back several derived attributes at once.  This file models exactly that:

* `Heap` — link objects (`nodes`), the list objects their `_from` attributes are bound to (`lists`),
  the `ParsedCommand` objects (`cmds`), and — as *ghost* state that no Impl function reads — the
  inputs every link object was **defined with** (`defIds`, by value; renamed by `update_id`);
* `mkBinary` / `mkFunc` / `mkCmd` / `mkParsed` — the constructors **as coded**: what is copied, what
  is shared (`share = true` is the defective variant in which `BinaryComponentLink.__init__`
  re-uses the left operand's own list object and extends it);
* the component table stores, for a derived attribute, *which link object* backs it (`ptr n`);
  `Heap.fromIds?` (= `link.get_from_ids()`, read from the list cell), `evalH` (= `data[cid, view]`
  through `link.compute`, operands that are link objects are computed recursively), `removeCompH`,
  `replaceIds` / `updateIdH` (in place, as coded) and the call state machine `implCallH`;
* the Spec reads only the definition: `specH` (defining expression, pointwise), `specCallH`
  (closure filter w.r.t. `defIds`, pure renaming of everything reachable from the data set).

Core Lean only.
-/
namespace GlueVerif.DerivedHeap
open GlueVerif.Derived

abbrev NodeId := Nat
abbrev ListId := Nat
abbrev CmdId := Nat

/-- An operand of a `BinaryComponentLink`: a Python number, a `ComponentID`, or a link **object**. -/
inductive Opnd (κ α : Type) where
  | const (c : α)
  | cid (k : κ)
  | link (n : NodeId)
  deriving BEq, Repr

/-- A link object.  `frm` is the list object its `_from` attribute is bound to. -/
inductive Node (κ ω α : Type) where
  | binary (o : ω) (l r : Opnd κ α) (frm : ListId)     -- BinaryComponentLink(_left, _right, _op)
  | func (f : ω) (ravel : Bool) (frm : ListId)         -- ComponentLink(comp_from, to, using=f)
  | parsed (cmd : CmdId) (frm : ListId)                -- ParsedComponentLink(to, parsed)
  deriving BEq, Repr

def Node.frm : Node κ ω α → ListId
  | .binary _ _ _ f => f
  | .func _ _ f => f
  | .parsed _ f => f

structure Heap (κ ω α : Type) where
  nodes  : List (Node κ ω α) := []
  lists  : List (List κ) := []           -- Python list objects (the `_from` cells)
  cmds   : List (PExpr κ ω α) := []      -- ParsedCommand objects (`_cmd` + `_references`)
  /-- ghost: the inputs link object `n` was defined with (what the Spec reads) -/
  defIds : List (List κ) := []

section heap
variable {κ ω α : Type}

/-- `link.get_from_ids()`: the content of the list object `_from` is bound to. -/
def Heap.fromIds? (h : Heap κ ω α) (n : NodeId) : Option (List κ) :=
  match h.nodes[n]? with
  | some nd => h.lists[nd.frm]?
  | none => none

/-- What `BinaryComponentLink.__init__` appends for one operand: `[cid]`, the **elements** of
`operand.get_from_ids()` (`from_.extend(...)` copies them), nothing for a number. -/
def opIds (h : Heap κ ω α) : Opnd κ α → Option (List κ)
  | .const _ => some []
  | .cid k => some [k]
  | .link m => h.fromIds? m

/-- The same on the definitions (ghost). -/
def opDefIds (h : Heap κ ω α) : Opnd κ α → Option (List κ)
  | .const _ => some []
  | .cid k => some [k]
  | .link m => h.defIds[m]?

/-- **Impl**: `BinaryComponentLink(left, right, op)` (also reached through the operator overloads
of `ComponentID` and `ComponentLink`).  As coded (`share = false`): a **new** list object receives
the left inputs followed by the right inputs; the operands themselves are kept by reference.
`share = true` is the defective variant (seeded change C14c): for a link on the left,
`from_ = left.get_from_ids()` is the operand's **own** list object, which `from_.extend(right ids)`
then mutates. -/
def mkBinary (share : Bool) (h : Heap κ ω α) (o : ω) (l r : Opnd κ α) :
    Option (Heap κ ω α × NodeId) :=
  match opIds h l, opIds h r, opDefIds h l, opDefIds h r with
  | some li, some ri, some ld, some rd =>
    let n := h.nodes.length
    let aliased : Option ListId :=
      if share then (match l with
        | .link m => (h.nodes[m]?).map Node.frm
        | _ => none) else none
    match aliased with
    | some lst =>
      some ({ h with nodes := h.nodes ++ [.binary o l r lst],
                     lists := h.lists.modify lst (· ++ ri),
                     defIds := h.defIds ++ [ld ++ rd] }, n)
    | none =>
      some ({ h with nodes := h.nodes ++ [.binary o l r h.lists.length],
                     lists := h.lists ++ [li ++ ri],
                     defIds := h.defIds ++ [ld ++ rd] }, n)
  | _, _, _, _ => none

/-- **Impl**: `ComponentLink([k₁, …], to, using=f)` with a list the caller has just built
(`ComponentLink.__init__` keeps that very list object as `_from`). -/
def mkFunc (h : Heap κ ω α) (ks : List κ) (f : ω) (ravel : Bool) : Heap κ ω α × NodeId :=
  ({ h with nodes := h.nodes ++ [.func f ravel h.lists.length],
            lists := h.lists ++ [ks], defIds := h.defIds ++ [ks] }, h.nodes.length)

/-- **Impl**: `ParsedCommand(text, references)`: `_validate` builds a new reference dict. -/
def mkCmd (h : Heap κ ω α) (p : PExpr κ ω α) : Heap κ ω α × CmdId :=
  ({ h with cmds := h.cmds ++ [p] }, h.cmds.length)

/-- **Impl**: `ParsedComponentLink(to, parsed)`: keeps the `ParsedCommand` **object**; `_from` is a
new list, `parsed.reference_list` (the distinct identifiers the command mentions). -/
def mkParsed [BEq κ] (h : Heap κ ω α) (c : CmdId) : Option (Heap κ ω α × NodeId) :=
  match h.cmds[c]? with
  | some p =>
    let ids := p.refs.eraseDups
    some ({ h with nodes := h.nodes ++ [.parsed c h.lists.length],
                   lists := h.lists ++ [ids], defIds := h.defIds ++ [ids] }, h.nodes.length)
  | none => none

/-- The constructor calls of a program. -/
inductive Build (κ ω α : Type) where
  | binary (o : ω) (l r : Opnd κ α)
  | func (ks : List κ) (f : ω) (ravel : Bool)
  | cmd (p : PExpr κ ω α)
  | parsed (c : CmdId)

def build [BEq κ] (share : Bool) (h : Heap κ ω α) : Build κ ω α → Option (Heap κ ω α)
  | .binary o l r => (mkBinary share h o l r).map (·.1)
  | .func ks f rv => some (mkFunc h ks f rv).1
  | .cmd p => some (mkCmd h p).1
  | .parsed c => (mkParsed h c).map (·.1)

def runBuilds [BEq κ] (share : Bool) : Heap κ ω α → List (Build κ ω α) → Option (Heap κ ω α)
  | h, [] => some h
  | h, b :: bs => (build share h b).bind fun h' => runBuilds share h' bs

/-! ### well-formedness, aliasing, coherence (decidable; the Prop forms are in the lemmas) -/

def Opnd.okB (bound : Nat) : Opnd κ α → Bool
  | .link m => m < bound
  | _ => true

/-- Every reference of object `n` points to an existing, **older** object / cell. -/
def nodeOkB (h : Heap κ ω α) (n : Nat) : Node κ ω α → Bool
  | .binary _ l r f => l.okB n && r.okB n && f < h.lists.length
  | .func _ _ f => f < h.lists.length
  | .parsed c f => c < h.cmds.length && f < h.lists.length

def Heap.wfB (h : Heap κ ω α) : Bool :=
  h.defIds.length == h.nodes.length &&
  (h.nodes.zipIdx.all fun (nd, n) => nodeOkB h n nd)

/-- Distinct link objects have distinct `_from` list objects. -/
def Heap.noAliasB (h : Heap κ ω α) : Bool :=
  h.nodes.zipIdx.all fun (nd, n) => h.nodes.zipIdx.all fun (nd', n') => n == n' || nd.frm != nd'.frm

/-- The `_from` cell of every link object holds the inputs the object was defined with. -/
def Heap.coherentB [BEq κ] (h : Heap κ ω α) : Bool :=
  h.nodes.zipIdx.all fun (nd, n) => h.lists[nd.frm]? == h.defIds[n]? && (h.defIds[n]?).isSome

end heap

/-! ## the data set: component table + heap -/

/-- The component table stores, for a derived attribute, the **identity** of its link object:
`ptr n` (the `froms` field of the entry is not used — inputs are read from the heap).  Encoding the
pointer as a `Comp` lets every table function of `Model/Derived.lean` that does not look into links
(`find`, `set`, `ofPairs`, `reorderComps`, `addComp`, `updateIdCall`, …) apply unchanged. -/
abbrev HTable (κ α : Type) := Table κ NodeId α

def ptr {κ α : Type} (n : NodeId) : Comp κ NodeId α := .derived (.func [] n false)

def nodeOf {κ α : Type} : Comp κ NodeId α → Option NodeId
  | .derived (.func _ n _) => some n
  | _ => none

structure State (κ ω α : Type) where
  h : Heap κ ω α := {}
  t : HTable κ α := []

section state
variable {κ ω α : Type} [DecidableEq κ]

/-- The table with every pointer resolved to the inputs `ids n` of its link object — the value
table (`Model/Derived.lean`) that `remove_component` / `add_component_link` see. -/
def resolveC (ids : NodeId → List κ) : Comp κ NodeId α → Comp κ NodeId α
  | .derived (.func _ n rv) => .derived (.func (ids n) n rv)
  | c => c

def resolveE (ids : NodeId → List κ) (p : κ × Comp κ NodeId α) : κ × Comp κ NodeId α :=
  (p.1, resolveC ids p.2)

def resolve (ids : NodeId → List κ) (t : HTable κ α) : HTable κ α := t.map (resolveE ids)

/-- Reader of the Impl: the list cells. -/
def Heap.cellIds (h : Heap κ ω α) (n : NodeId) : List κ := (h.fromIds? n).getD []
/-- Reader of the Spec: the definitions. -/
def Heap.specIds (h : Heap κ ω α) (n : NodeId) : List κ := (h.defIds[n]?).getD []

/-! ### evaluation -/

/-- What is evaluated: a component of the data set, or a link object. -/
abbrev Tgt (κ : Type) := κ ⊕ NodeId

def evalOp (ev : Tgt κ → Except Err (Val α)) : Opnd κ α → Except Err (Val α)
  | .const c => .ok (.scalar c)
  | .cid k => ev (.inl k)
  | .link m => ev (.inr m)

/-- **Impl**: `data[k, view]` (`.inl k`) and `link.compute(data, view)` (`.inr n`) as coded:
`BinaryComponentLink.compute` fetches `data[self._left, view]` — for an operand that is a link
object `Data.get_data` calls its `compute` — and combines with `binaryCompute`;
`ComponentLink.compute` fetches `[data[f, view] for f in self._from]` (**the list cell**);
`ParsedComponentLink.compute` evaluates its `ParsedCommand` object. -/
def evalH (I : Interp ω α) (v : List NAxis) (scalarShape : List Nat) :
    Nat → State κ ω α → Tgt κ → Except Err (Val α)
  | 0, _, _ => .error .recursion
  | fuel + 1, s, .inl k =>
    match s.t.find k with
    | none => .error .incompatible
    | some (.prim a _) => .ok (toVal (applyViewN a v))
    | some (.derived (.func _ n _)) => evalH I v scalarShape fuel s (.inr n)
    | some (.derived _) => .error .incompatible
  | fuel + 1, s, .inr n =>
    match s.h.nodes[n]? with
    | none => .error .incompatible
    | some (.binary o l r _) =>
      match evalOp (evalH I v scalarShape fuel s) l, evalOp (evalH I v scalarShape fuel s) r with
      | .ok a, .ok b =>
        match binaryCompute (I.opf o) a b with
        | some x => .ok x
        | none => .error .shape
      | .error e, _ => .error e
      | _, .error e => .error e
    | some (.func f ravel frm) =>
      match s.h.lists[frm]? with
      | none => .error .incompatible
      | some fs =>
        match sequenceE (fs.map fun k => evalH I v scalarShape fuel s (.inl k)) with
        | .error e => .error e
        | .ok args =>
          match linkCompute (I.fnf f) ravel args with
          | some r => .ok r
          | none => .error .shape
    | some (.parsed c _) =>
      match s.h.cmds[c]? with
      | none => .error .incompatible
      | some p =>
        match p.evalWith I.opf I.negf (fun k => evalH I v scalarShape fuel s (.inl k)) with
        | .ok r => .ok (parsedFinish scalarShape r)
        | .error e => .error e

def specOp (sp : Tgt κ → Option α) : Opnd κ α → Option α
  | .const c => some c
  | .cid k => sp (.inl k)
  | .link m => sp (.inr m)

/-- **Spec**: the value at data index `idx` of a component / of the expression a link object
denotes: the operator applied to the values of the operands, the user function applied to the
values of the inputs the link was **defined with** (`defIds`), the command applied to its
references. -/
def specH (I : Interp ω α) : Nat → State κ ω α → List Int → Tgt κ → Option α
  | 0, _, _, _ => none
  | fuel + 1, s, idx, .inl k =>
    match s.t.find k with
    | none => none
    | some (.prim a _) => some (a.atI idx)
    | some (.derived (.func _ n _)) => specH I fuel s idx (.inr n)
    | some (.derived _) => none
  | fuel + 1, s, idx, .inr n =>
    match s.h.nodes[n]? with
    | none => none
    | some (.binary o l r _) =>
      match specOp (specH I fuel s idx) l, specOp (specH I fuel s idx) r with
      | some a, some b => some (I.opf o a b)
      | _, _ => none
    | some (.func f _ _) =>
      match s.h.defIds[n]? with
      | none => none
      | some fs => (mapM' (fun k => specH I fuel s idx (.inl k)) fs).map (I.fnf f)
    | some (.parsed c _) =>
      match s.h.cmds[c]? with
      | none => none
      | some p => p.evalPt I.opf I.negf (fun k => specH I fuel s idx (.inl k))

def opResolves (rs : Tgt κ → Bool) : Opnd κ α → Bool
  | .const _ => true
  | .cid k => rs (.inl k)
  | .link m => rs (.inr m)

/-- Everything needed to evaluate the target resolves within `fuel` levels (hypothesis of
`heap_getitem_elementwise`; false on dangling references and cyclic definitions). -/
def resolvesH : Nat → State κ ω α → Tgt κ → Bool
  | 0, _, _ => false
  | fuel + 1, s, .inl k =>
    match s.t.find k with
    | none => false
    | some (.prim _ _) => true
    | some (.derived (.func _ n _)) => resolvesH fuel s (.inr n)
    | some (.derived _) => false
  | fuel + 1, s, .inr n =>
    match s.h.nodes[n]? with
    | none => false
    | some (.binary _ l r _) => opResolves (resolvesH fuel s) l && opResolves (resolvesH fuel s) r
    | some (.func _ _ _) =>
      match s.h.defIds[n]? with
      | none => false
      | some fs => fs.all fun k => resolvesH fuel s (.inl k)
    | some (.parsed c _) =>
      match s.h.cmds[c]? with
      | none => false
      | some p => p.refs.all fun k => resolvesH fuel s (.inl k)

/-! ### `remove_component` -/

/-- `[cid for cid in self.derived_components if component_id in comp.link.get_from_ids()]`. -/
def depPredH (ids : NodeId → List κ) (k : κ) (p : κ × Comp κ NodeId α) : Bool :=
  match nodeOf p.2 with
  | some n => (ids n).contains k
  | none => false

def dependOnH (ids : NodeId → List κ) (t : HTable κ α) (k : κ) : List κ :=
  (t.filter (depPredH ids k)).map (·.1)

/-- **Impl**: `Data._remove_component` on the pointer table; `ids = h.cellIds` (the recursion of
`Model/Derived.removeComp`, inputs read from the heap at every step). -/
def removeCompH (ids : NodeId → List κ) : Nat → HTable κ α → κ → HTable κ α
  | 0, t, _ => t
  | fuel + 1, t, k =>
    if t.keys.contains k then
      let t1 := t.erase k
      (dependOnH ids t1 k).foldl (fun acc d => removeCompH ids fuel acc d) t1
    else t

/-! ### `update_id`: `replace_ids` in place -/

def ren (old new : κ) (k : κ) : κ := if k = old then new else k

def Opnd.ren (old new : κ) : Opnd κ α → Opnd κ α
  | .cid k => .cid (DerivedHeap.ren old new k)
  | o => o

def Heap.renList (h : Heap κ ω α) (i : ListId) (old new : κ) : Heap κ ω α :=
  { h with lists := h.lists.modify i (·.map (ren old new)) }

def Heap.renCmd (h : Heap κ ω α) (c : CmdId) (old new : κ) : Heap κ ω α :=
  { h with cmds := h.cmds.modify c (·.replace old new) }

/-- ghost: the definition of object `n` follows the renaming. -/
def Heap.renDef (h : Heap κ ω α) (n : NodeId) (old new : κ) : Heap κ ω α :=
  { h with defIds := h.defIds.modify n (·.map (ren old new)) }

def Heap.setNode (h : Heap κ ω α) (n : NodeId) (nd : Node κ ω α) : Heap κ ω α :=
  { h with nodes := h.nodes.set n nd }

/-- **Impl**: `link.replace_ids(old, new)` as coded, in place.  `ComponentLink.replace_ids` rewrites
the elements of the list object `_from`; `BinaryComponentLink.replace_ids` then rebinds `_left` if it
*is* `old`, or calls `replace_ids` on it if it is a link object — the same for `_right`;
`ParsedComponentLink.replace_ids` also rewrites the reference dict of its `ParsedCommand` object.
A link object that is reachable along several paths is visited once per path. -/
def replaceOp (rec : Heap κ ω α → NodeId → Heap κ ω α) (h : Heap κ ω α) : Opnd κ α → Heap κ ω α
  | .link m => rec h m
  | _ => h

def replaceIds (old new : κ) : Nat → Heap κ ω α → NodeId → Heap κ ω α
  | 0, h, _ => h
  | fuel + 1, h, n =>
    match h.nodes[n]? with
    | none => h
    | some (.binary o l r frm) =>
      let h0 := (h.renList frm old new).renDef n old new
      let h1 := replaceOp (replaceIds old new fuel) h0 l
      let h2 := replaceOp (replaceIds old new fuel) h1 r
      h2.setNode n (.binary o (l.ren old new) (r.ren old new) frm)
    | some (.func _ _ frm) => (h.renList frm old new).renDef n old new
    | some (.parsed c frm) => ((h.renList frm old new).renDef n old new).renCmd c old new

/-- Enough fuel for any object graph of the heap (operands are older than the link that holds them). -/
def Heap.fuel (h : Heap κ ω α) : Nat := h.nodes.length + 1

/-- **Impl**: the body of `Data.update_id(old, new)` behind the refusal test: the key is replaced in
place (`OrderedDict(...)` rebuild), then `component.link.replace_ids(old, new)` for every derived
component, in component order, on the link **objects**. -/
def updateIdH (s : State κ ω α) (old new : κ) : State κ ω α :=
  if new = old then s else
  if s.t.keys.contains old then
    let t1 := updateId false s.t old new
    let h1 := t1.foldl (fun h p => match nodeOf p.2 with
      | some n => replaceIds old new h.fuel h n
      | none => h) s.h
    ⟨h1, t1⟩
  else s

/-- Link objects reachable from object `n` through operands (within `fuel` levels), `n` included. -/
def reachFrom (h : Heap κ ω α) : Nat → NodeId → List NodeId
  | 0, _ => []
  | fuel + 1, n =>
    match h.nodes[n]? with
    | some (.binary _ l r _) =>
      n :: ((match l with | .link m => reachFrom h fuel m | _ => []) ++
            (match r with | .link m => reachFrom h fuel m | _ => []))
    | some _ => [n]
    | none => []

/-- The link objects the data set can reach: those backing a derived component and their operands. -/
def reachTable (s : State κ ω α) : List NodeId :=
  s.t.flatMap fun p => match nodeOf p.2 with
    | some n => reachFrom s.h s.h.fuel n
    | none => []

def Node.ren (old new : κ) : Node κ ω α → Node κ ω α
  | .binary o l r f => .binary o (l.ren old new) (r.ren old new) f
  | nd => nd

/-- **Spec** of `update_id` on the objects: every link object the data set can reach — and the
`ParsedCommand` objects of the reachable parsed links — has `old` renamed to `new`, in its
operands and in its definition; no other object changes.  (The Spec does not speak about the list
cells; they are set to the renamed definition so that the result is a complete state.) -/
def specRenameH (s : State κ ω α) (old new : κ) : State κ ω α :=
  let R := reachTable s
  let cs : List CmdId := R.filterMap fun n => match s.h.nodes[n]? with
    | some (Node.parsed c _) => some c
    | _ => none
  let fs := R.filterMap fun n => (s.h.nodes[n]?).map Node.frm
  { h := { nodes := s.h.nodes.zipIdx.map fun (nd, n) => if R.contains n then nd.ren old new else nd,
           lists := s.h.lists.zipIdx.map fun (l, i) => if fs.contains i then l.map (ren old new) else l,
           cmds := s.h.cmds.zipIdx.map fun (p, c) => if cs.contains c then p.replace old new else p,
           defIds := s.h.defIds.zipIdx.map fun (l, n) => if R.contains n then l.map (ren old new) else l },
    t := specRename old new s.t }

/-! ### the calls -/

inductive HCall (κ α : Type) where
  | addS (k : κ) (a : SArr α)        -- add_component(Component(array), cid)
  | add (k : κ) (n : NodeId)         -- add_component_link(link object n, cid)   (inputs checked)
  | addRaw (k : κ) (n : NodeId)      -- add_component(DerivedComponent(data, link object n), cid)
  | remove (k : κ)
  | update (old new : κ)

/-- **Impl** of one call (`none` = `ValueError`, nothing changed): the public calls as repaired
(F20–F22, `Model/Derived.lean`), the inputs of a link object read from its list cell. -/
def implCallH (s : State κ ω α) : HCall κ α → Option (State κ ω α)
  | .addS k a => (addComp s.t k (.prim a false)).map fun t => { s with t := t }
  | .add k n =>
    if (s.h.cellIds n).all s.t.keys.contains then
      (addComp s.t k (ptr n)).map fun t => { s with t := t }
    else none
  | .addRaw k n => (addComp s.t k (ptr n)).map fun t => { s with t := t }
  | .remove k =>
    match s.t.find k with
    | some c => if c.isCoord then none
                else some { s with t := removeCompH s.h.cellIds (s.t.length + 1) s.t k }
    | none => some s
  | .update o n =>
    if n = o then some s
    else if s.t.keys.contains n then none
    else some (updateIdH s o n)

/-- **Spec** of one call, on the definitions: a checked add is refused iff an input the link was
defined with is missing; removal deletes exactly the dependency closure w.r.t. the defined inputs;
replacing an identifier renames it in the table and in everything the data set can reach. -/
def specCallH (s : State κ ω α) : HCall κ α → Option (State κ ω α)
  | .addS k a => (specSet s.t k (.prim a false)).map fun t => { s with t := t }
  | .add k n =>
    if (s.h.specIds n).all s.t.keys.contains then
      (specSet s.t k (ptr n)).map fun t => { s with t := t }
    else none
  | .addRaw k n => (specSet s.t k (ptr n)).map fun t => { s with t := t }
  | .remove k =>
    match s.t.find k with
    | some c =>
      if c.isCoord then none
      else some { s with t := s.t.filter fun p =>
        !((depClosure (resolve s.h.specIds s.t) k).contains p.1) }
    | none => some s
  | .update o n =>
    if o = n then some s
    else if s.t.keys.contains n then none
    else if s.t.keys.contains o then some (specRenameH s o n) else some s

def State.after (s : State κ ω α) (r : Option (State κ ω α)) : State κ ω α :=
  match r with
  | some s' => s'
  | none => s

end state

end GlueVerif.DerivedHeap
