/-
L5 (C11) model: key joins.

Mirrors `glue/core/joins.py` (`concatenate_arrays`, `common_key_arrays`, `get_mask_with_key_joins`),
`Data.join_on_key` / `Data.get_mask` (`glue/core/data.py`) and the `JoinLink` branch of
`LinkManager.add_link` / `remove_link`.  Core Lean only.

Layout
* L0  — key values as stored by numpy: dtypes, cells, `np.result_type`, `astype`, the byte layout
        of one item, IEEE equality on bit patterns (`eqAt`), equality "by value" (`veq`).
* Impl — `concatenate_arrays` + NUL-stripped byte comparison (`nnMatch`), the four shapes as
        coded (`Impl.joinMask`), the `_recursing` DFS (`getMask`), `_key_joins` as an ordered
        association list with dict semantics (`applyOp`).
* Spec — membership by value (`Spec.rowMatch`), propagation along a simple join path (`along`),
        the set of admissible paths (`paths`), the verdict on an observed output (`specOk`).
-/
namespace GlueVerif.Joins

/-! ## L0: dtypes, cells, promotion, casting, byte layout -/

/-- Storage dtypes of key columns. `w` is the item size in bytes for numbers and the number of
UTF-32 characters for strings (`'<U3'` = `str 3`). -/
inductive DType where
  | int (signed : Bool) (w : Nat)
  | flt (w : Nat)
  | str (w : Nat)
  deriving DecidableEq, Repr, Inhabited

/-- One stored item: an integer, the IEEE bit pattern of a float (at the column's width), or the
code points of a string (numpy never stores trailing NULs). -/
inductive Cell where
  | i (v : Int)
  | f (bits : Nat)
  | s (cs : List Nat)
  deriving DecidableEq, Repr, Inhabited

abbrev Key := DType × Cell

def expBits (w : Nat) : Nat := if w = 4 then 8 else 11
def manBits (w : Nat) : Nat := if w = 4 then 23 else 52

/-- NaN: exponent all ones, mantissa non-zero. -/
def isNaN (w b : Nat) : Bool :=
  (b / 2 ^ manBits w) % 2 ^ expBits w == 2 ^ expBits w - 1 && b % 2 ^ manBits w != 0

/-- The bit pattern of `-0.0`. -/
def negZero (w : Nat) : Nat := 2 ^ (8 * w - 1)

def isZero (w b : Nat) : Bool := b == 0 || b == negZero w

/-- `np.result_type` on the dtypes the harness generates (no bool, no float16, no uint64;
a string paired with a number is outside the modelled domain — `kindsOk`). -/
def common : DType → DType → DType
  | .int s1 w1, .int s2 w2 =>
    if s1 = s2 then .int s1 (max w1 w2)
    else
      let ws := if s1 then w1 else w2
      let wu := if s1 then w2 else w1
      if wu ≥ 8 then .flt 8 else if ws > wu then .int true ws else .int true (2 * wu)
  | .flt a, .flt b => .flt (max a b)
  | .int _ w, .flt f => .flt (max f (if w ≤ 2 then 4 else 8))
  | .flt f, .int _ w => .flt (max f (if w ≤ 2 then 4 else 8))
  | .str a, .str b => .str (max a b)
  | a, _ => a

def kindsOk : DType → DType → Bool
  | .str _, .str _ => true
  | .str _, _ => false
  | _, .str _ => false
  | _, _ => true

/-- Conversion of an integer to an IEEE bit pattern (`astype(float)`): exact whenever the integer
has at most `manBits + 1` significant bits, otherwise **round to nearest, ties to even** as numpy
(the C cast) does — `2^53 + 1 ↦ 2^53`, `2^53 + 3 ↦ 2^53 + 4`, `2^63 - 1 ↦ 2^63` (the carry of the
rounded significand runs into the exponent field).  Validated on the edge alphabets by `castv`. -/
def intToFloat (w : Nat) (v : Int) : Nat :=
  let mb := manBits w
  let n := v.natAbs
  if n = 0 then 0 else
  let bl := Nat.log2 n + 1
  let e := 2 ^ (expBits w - 1) - 1 + bl - 1
  -- the significand including the hidden bit, `2^mb ≤ sig ≤ 2^(mb+1)`
  let sig :=
    if bl ≤ mb + 1 then n * 2 ^ (mb + 1 - bl)
    else
      let sh := bl - mb - 1
      let q := n / 2 ^ sh
      let r := n % 2 ^ sh
      let half := 2 ^ (sh - 1)
      if r > half ∨ (r = half ∧ q % 2 = 1) then q + 1 else q
  (if v < 0 then negZero w else 0) + e * 2 ^ mb + (sig - 2 ^ mb)

/-- Is `astype` value-preserving on this item?  Only integer → float can lose information: it is
exact iff the integer has at most `manBits + 1` significant bits once its trailing zero bits are
dropped (every modelled integer is far below the largest finite float). -/
def exactCast (src dst : DType) (c : Cell) : Bool :=
  match src, dst, c with
  | .int _ _, .flt w, .i v =>
    let n := v.natAbs
    let bl := Nat.log2 n + 1
    n == 0 || decide (bl ≤ manBits w + 1) || n % 2 ^ (bl - manBits w - 1) == 0
  | _, _, _ => true

/-- float32 → float64 (exact; subnormal float32 inputs are outside the modelled domain). -/
def widen (b : Nat) : Nat :=
  let s := b / 2 ^ 31
  let e := (b / 2 ^ 23) % 256
  let m := b % 2 ^ 23
  let e' := if e = 0 then 0 else if e = 255 then 2047 else e + 896
  s * 2 ^ 63 + e' * 2 ^ 52 + m * 2 ^ 29

/-- `array.astype(to)` on one item, for `to = common from _`. -/
def cast (src dst : DType) (c : Cell) : Cell :=
  match src, dst, c with
  | .int _ _, .flt w, .i v => .f (intToFloat w v)
  | .flt 4, .flt 8, .f b => .f (widen b)
  | _, _, c => c

/-- Is the cell a legal item of the dtype? -/
def validCell : DType → Cell → Bool
  | .int true w, .i v =>
    decide (0 < w) && decide ((v < 0 ∧ v.natAbs ≤ 2 ^ (8 * w - 1)) ∨ (0 ≤ v ∧ v.natAbs < 2 ^ (8 * w - 1)))
  | .int false w, .i v => decide (0 ≤ v ∧ v.natAbs < 2 ^ (8 * w))
  | .flt w, .f b => (w == 4 || w == 8) && decide (b < 2 ^ (8 * w))
  | .str w, .s cs => decide (cs.length ≤ w) && cs.all (fun c => decide (c < 2 ^ 32)) && cs.getLast? != some 0
  | _, _ => false

/-- Equality of two items of the same dtype, as numpy's `==` computes it: IEEE for floats (NaN is
equal to nothing, `-0.0 == 0.0`), plain equality of integers and of code-point sequences. -/
def eqAt : DType → Cell → Cell → Bool
  | .flt w, .f a, .f b => !isNaN w a && !isNaN w b && (a == b || (isZero w a && isZero w b))
  | _, a, b => a == b

/-- **Equality by value** of two stored keys of possibly different dtypes: promote both to the
common dtype, compare there.  This is what `np.isin` / `==` do. -/
def veq (a b : Key) : Bool :=
  let c := common a.1 b.1
  eqAt c (cast a.1 c a.2) (cast b.1 c b.2)

def veqO : Option Key → Option Key → Bool
  | some a, some b => veq a b
  | _, _ => false

/-- Both promotions to the common dtype are value-preserving. -/
def exactPair (a b : Key) : Bool :=
  let c := common a.1 b.1
  exactCast a.1 c a.2 && exactCast b.1 c b.2

def exactPairO : Option Key → Option Key → Bool
  | some a, some b => exactPair a b
  | _, _ => true

/-- **Exact equality by value** of two stored keys: the values the two items denote are the same
number / string.  An integer that is not representable in the common float dtype is different from
every float of that dtype (all of which *are* representable there), so exact equality is numpy's
promoted comparison `veq` restricted to value-preserving promotions.  Validated against exact
Python integer / rational comparison by the `eqv` family. -/
def veqX (a b : Key) : Bool := veq a b && exactPair a b

def veqXO : Option Key → Option Key → Bool
  | some a, some b => veqX a b
  | _, _ => false

/-- `w` little-endian bytes of `n`. -/
def leBytes : Nat → Nat → List Nat
  | 0, _ => []
  | w + 1, n => n % 256 :: leBytes w (n / 256)

/-- The bytes of one item in a numpy buffer: two's complement little-endian integers, IEEE bit
patterns, UTF-32-LE code points padded with NULs to the column width. -/
def enc : DType → Cell → List Nat
  | .int _ w, .i v => leBytes w (if 0 ≤ v then v.toNat else 2 ^ (8 * w) - v.natAbs)   -- two's complement
  | .flt w, .f b => leBytes w b
  | .str w, .s cs => ((cs ++ List.replicate (w - cs.length) 0).take w).flatMap (leBytes 4)
  | _, _ => []

def byteWidth : DType → Nat
  | .int _ w => w
  | .flt w => w
  | .str w => 4 * w

/-- Remove trailing NUL bytes: numpy compares `S<n>` items as NUL-padded strings. -/
def stripZ : List Nat → List Nat
  | [] => []
  | x :: xs =>
    match stripZ xs with
    | [] => if x = 0 then [] else [x]
    | ys => x :: ys

/-! ## Impl: the n-n byte path -/

/-- `key + 0` on floating-point keys: `-0.0` becomes `0.0` (F6b repair). -/
def norm0 : DType → Cell → Cell
  | .flt w, .f b => .f (if b = negZero w then 0 else b)
  | _, c => c

def cellNaN : DType → Cell → Bool
  | .flt w, .f b => isNaN w b
  | _, _ => false

/-- `common_key_arrays` on one pair of items: (common dtype, left item, right item). -/
def castPair (p : Key × Key) : DType × Cell × Cell :=
  let c := common p.1.1 p.2.1
  (c, norm0 c (cast p.1.1 c p.1.2), norm0 c (cast p.2.1 c p.2.2))

/-- One row of `concatenate_arrays(*cols)`: the items' bytes one after the other. -/
def encLeft (ps : List (DType × Cell × Cell)) : List Nat := ps.flatMap fun p => enc p.1 p.2.1
def encRight (ps : List (DType × Cell × Cell)) : List Nat := ps.flatMap fun p => enc p.1 p.2.2

/-- n-n as coded (with the F6 / F6b repairs): the left and right key tuples are brought to the
common dtypes pair by pair, concatenated as bytes, and compared as `S<total>` items; a left tuple
containing a NaN is never selected (`& valid`). -/
def nnMatch (l r : List Key) : Bool :=
  let ps := (l.zip r).map castPair
  ps.all (fun p => !cellNaN p.1 p.2.1) && stripZ (encLeft ps) == stripZ (encRight ps)

/-- n-n as coded on the *unrepaired* tree (no cast, no normalisation): each side is encoded with
its own dtypes.  Only used for the `decide`d witnesses of F6 / F6b. -/
def nnMatchRaw (l r : List Key) : Bool :=
  stripZ (l.flatMap fun k => enc k.1 k.2) == stripZ (r.flatMap fun k => enc k.1 k.2)

/-- n-n with the F6 repair only (cast to the common dtype, no `-0.0`/NaN treatment). -/
def nnMatchCastOnly (l r : List Key) : Bool :=
  let ps := (l.zip r).map fun p =>
    let c := common p.1.1 p.2.1
    (c, cast p.1.1 c p.1.2, cast p.2.1 c p.2.2)
  stripZ (encLeft ps) == stripZ (encRight ps)

/-! ## Datasets, joins, views -/

/-- One entry of `Data._key_joins`: `other -> (own cids, other's cids)` (column indices). -/
structure Join where
  other : Nat
  own : List Nat
  oth : List Nat
  deriving DecidableEq, Repr, Inhabited

/-- A dataset as far as key joins can see it: the dtypes of its columns, its items row by row
(flattened, row-major, for n-d data), the mask of the selection on this dataset if the selection
can be evaluated here (`none` = `IncompatibleAttribute`), and `_key_joins` in dict order. -/
structure Dataset where
  dts : List DType
  rows : List (List Cell)
  ownMask : Option (List Bool)
  joins : List Join
  deriving Repr, Inhabited

abbrev World := List Dataset

/-- A view is the list of flat positions it takes, in order (`np.arange(n).reshape(shape)[view].ravel()`). -/
abbrev View := Option (List Nat)

def applyView (v : View) (xs : List α) : List α :=
  match v with
  | none => xs
  | some idx => idx.filterMap fun i => xs[i]?

/-- Boolean-mask indexing `array[mask]`. -/
def select (xs : List α) (m : List Bool) : List α :=
  (xs.zip m).filterMap fun p => if p.2 then some p.1 else none

/-- The key of one row in key column `c`: its dtype and its stored item. -/
def keyOf (dts : List DType) (row : List Cell) (c : Nat) : Option Key :=
  match dts[c]?, row[c]? with
  | some d, some x => some (d, x)
  | _, _ => none

/-- The key tuple of one row for the given key columns. -/
def rowKeys (dts : List DType) (cids : List Nat) (row : List Cell) : List Key :=
  cids.filterMap (keyOf dts row)

inductive Res where
  | mask (m : List Bool)
  | incompatible
  | error
  | outOfFuel
  deriving DecidableEq, Repr, Inhabited

/-- `np.isin(xs, ys)` for a given item equality. -/
def isin (eq : α → β → Bool) (xs : List α) (ys : List β) : List Bool :=
  xs.map fun x => ys.any (eq x)

def orMask (a b : List Bool) : List Bool := List.zipWith (· || ·) a b

namespace Impl

/-- The four shapes of `get_mask_with_key_joins`, branch by branch, on the left key tuples (after
the view) and the key tuples of the selected rows of the partner.  `n1 = len(cid1)`,
`n2 = len(cid2)`. -/
def joinMask (kl kr : List (List Key)) (n1 n2 : Nat) : Res :=
  if n1 = 1 ∧ n2 = 1 then
    .mask (isin (fun l r => veqO l[0]? r[0]?) kl kr)
  else if n1 = n2 then
    if n1 = 0 then .error else .mask (isin nnMatch kl kr)
  else if n1 = 1 then
    -- mask = zeros; for cid2_i in cid2: mask |= isin(key_left, key_right_i)
    .mask ((List.range n2).foldl
      (fun m k => orMask m (isin (fun l r => veqO l[0]? r[k]?) kl kr)) (List.replicate kl.length false))
  else if n2 = 1 then
    if n1 = 0 then .error else
    -- mask = zeros; for cid1_i in cid1: mask |= isin(key_left_i, key_right)
    .mask ((List.range n1).foldl
      (fun m k => orMask m (isin (fun l r => veqO l[k]? r[0]?) kl kr)) (List.replicate kl.length false))
  else .error

/-- What each row test of the four shapes amounts to (proved equal to the loops above). -/
def rowMatch (n1 n2 : Nat) (l r : List Key) : Bool :=
  if n1 = 1 ∧ n2 = 1 then veqO l[0]? r[0]?
  else if n1 = n2 then nnMatch l r
  else if n1 = 1 then (List.range n2).any fun k => veqO l[0]? r[k]?
  else (List.range n1).any fun k => veqO l[k]? r[0]?

end Impl

namespace Np

/-- Membership by value **as numpy compares values** (promotion to the common dtype first), per
shape: the key equals the key (1-1), the key tuple equals the key tuple component-wise (n-n), the key
equals any of the partner row's keys (1-n), any of the row's keys equals the partner row's key (n-1).
This is what the code computes on legal key tuples (`Props.C11.impl_eq_np`). -/
def rowMatch (n1 n2 : Nat) (l r : List Key) : Bool :=
  if n1 = 1 ∧ n2 = 1 then veqO l[0]? r[0]?
  else if n1 = n2 then (l.zip r).all fun p => veq p.1 p.2
  else if n1 = 1 then r.any fun b => veqO l[0]? (some b)
  else l.any fun a => veqO (some a) r[0]?

end Np

namespace Spec

/-- **Membership by value** (what the property demands), per shape, with *exact* equality of the
stored values (`veqX`): no promotion anywhere may identify two different numbers. -/
def rowMatch (n1 n2 : Nat) (l r : List Key) : Bool :=
  if n1 = 1 ∧ n2 = 1 then veqXO l[0]? r[0]?
  else if n1 = n2 then (l.zip r).all fun p => veqX p.1 p.2
  else if n1 = 1 then r.any fun b => veqXO l[0]? (some b)
  else l.any fun a => veqXO (some a) r[0]?

end Spec

/-- The key pairs a join shape compares on the rows `l`, `r` are all promoted without loss. -/
def exactRows (n1 n2 : Nat) (l r : List Key) : Bool :=
  if n1 = 1 ∧ n2 = 1 then exactPairO l[0]? r[0]?
  else if n1 = n2 then (l.zip r).all fun p => exactPair p.1 p.2
  else if n1 = 1 then r.all fun b => exactPairO l[0]? (some b)
  else l.all fun a => exactPairO (some a) r[0]?

/-- The arities on which the coded branches produce a mask (everything else ends in the final
`raise Exception` or in an `IndexError` on an empty key tuple). -/
def arityOk (n1 n2 : Nat) : Bool := n1 != 0 && (n1 == n2 || n1 == 1 || n2 == 1)

/-- A join-mask function given by a row test: row selected ⇔ some selected partner row matches. -/
def jmOf (f : Nat → Nat → List Key → List Key → Bool) (kl kr : List (List Key)) (n1 n2 : Nat) : Res :=
  if arityOk n1 n2 then .mask (kl.map fun l => kr.any (f n1 n2 l)) else .error

abbrev JoinMaskFn := List (List Key) → List (List Key) → Nat → Nat → Res

/-- One join step: the left keys under the view, the partner's keys restricted to `mask_right`. -/
def propagate (jm : JoinMaskFn) (L : Dataset) (j : Join) (R : Dataset) (mR : List Bool) (v : View) : Res :=
  jm ((applyView v L.rows).map (rowKeys L.dts j.own)) ((select R.rows mR).map (rowKeys R.dts j.oth))
    j.own.length j.oth.length

/-! ## Impl: `Data.get_mask` + `get_mask_with_key_joins` (the `_recursing` DFS) -/

/-- The `for other, (cid1, cid2) in key_joins.items()` loop of `get_mask_with_key_joins` for
dataset `d`.  `G` = the datasets whose `_recursing` flag is set; `call o G'` = `other.get_mask`
with flags `G'`.  A partner that is flagged (or is `d` itself — F16 repair) is skipped, a partner
that raises `IncompatibleAttribute` is skipped, the first partner that returns a mask decides. -/
def tryPartners (jm : JoinMaskFn) (w : World) (d : Nat) (ds : Dataset) (v : View)
    (call : Nat → List Nat → Res) : List Join → List Nat → Res
  | [], _ => .incompatible
  | j :: js, G =>
    if j.other = d ∨ j.other ∈ G then tryPartners jm w d ds v call js G
    else
      match call j.other (d :: G) with
      | .incompatible => tryPartners jm w d ds v call js G
      | .mask mR =>
        match w[j.other]? with
        | some R => propagate jm ds j R mR v
        | none => .incompatible
      | r => r

/-- `Data.get_mask(subset_state, view)` of dataset `d` with flags `G`: own evaluation if possible,
else the key joins. Fuel bounds the recursion depth (`Props.C11.join_terminates`: `#datasets + 1`
always suffices). -/
def getMask (jm : JoinMaskFn) (w : World) : Nat → Nat → List Nat → View → Res
  | 0, _, _, _ => .outOfFuel
  | fuel + 1, d, G, v =>
    match w[d]? with
    | none => .incompatible
    | some ds =>
      match ds.ownMask with
      | some m => .mask (applyView v m)
      | none => tryPartners jm w d ds v (fun o G' => getMask jm w fuel o G' none) ds.joins G

/-- The model of the code: `get_mask` with the literal four shapes. -/
def Impl.getMask (w : World) (d : Nat) (v : View) : Res :=
  Joins.getMask Impl.joinMask w (w.length + 1) d [] v

/-! ## `_key_joins` maintenance: `join_on_key`, JoinLink removal -/

inductive Op where
  | join (a b : Nat) (ca cb : List Nat)   -- a.join_on_key(b, ca, cb)  (also LinkManager.add_link(JoinLink))
  | unjoin (a b : Nat)                     -- LinkManager.remove_link(JoinLink a-b)
  deriving Repr

/-- `dict[k] = v`: an existing key keeps its position. -/
def dictSet (js : List Join) (j : Join) : List Join :=
  if js.any (fun x => x.other == j.other) then js.map (fun x => if x.other == j.other then j else x)
  else js ++ [j]

def dictPop (js : List Join) (o : Nat) : List Join := js.filter fun x => x.other != o

def updAt (w : World) (i : Nat) (f : Dataset → Dataset) : World :=
  w.mapIdx fun k d => if k = i then f d else d

def applyOp (w : World) : Op → World
  | .join a b ca cb =>
    let w1 := updAt w a fun d => { d with joins := dictSet d.joins ⟨b, ca, cb⟩ }
    updAt w1 b fun d => { d with joins := dictSet d.joins ⟨a, cb, ca⟩ }
  | .unjoin a b =>
    let w1 := updAt w a fun d => { d with joins := dictPop d.joins b }
    updAt w1 b fun d => { d with joins := dictPop d.joins a }

def applyOps (w : World) (ops : List Op) : World := ops.foldl applyOp w

/-! ## Spec: propagation along join paths -/

/-- All simple join paths from `d` that avoid `G`, lead through datasets that cannot evaluate the
selection and end at one that can: `(steps, evaluator)`, a step being `(dataset, join used)`. -/
def paths (w : World) : Nat → Nat → List Nat → List (List (Nat × Join) × Nat)
  | 0, _, _ => []
  | fuel + 1, d, G =>
    match w[d]? with
    | none => []
    | some ds =>
      match ds.ownMask with
      | some _ => [([], d)]
      | none => ds.joins.flatMap fun j =>
          if j.other = d ∨ j.other ∈ G then []
          else (paths w fuel j.other (d :: G)).map fun p => ((d, j) :: p.1, p.2)

/-- Declarative reading of `paths`: `JoinPath w d G steps e` — starting at dataset `d` (flags `G`),
`steps` is a simple join path (never re-entering a dataset already on it, nor one in `G`) through
datasets that cannot evaluate the selection, ending at the dataset `e` that can.
(`Props.C11.paths_iff_joinPath`: `paths` enumerates exactly these.) -/
inductive JoinPath (w : World) : Nat → List Nat → List (Nat × Join) → Nat → Prop
  | here (d : Nat) (G : List Nat) (ds : Dataset) (m : List Bool) :
      w[d]? = some ds → ds.ownMask = some m → JoinPath w d G [] d
  | step (d : Nat) (G : List Nat) (ds : Dataset) (j : Join) (steps : List (Nat × Join)) (e : Nat) :
      w[d]? = some ds → ds.ownMask = none → j ∈ ds.joins → j.other ≠ d → j.other ∉ G →
      JoinPath w j.other (d :: G) steps e → JoinPath w d G ((d, j) :: steps) e

/-- The mask obtained by propagating the evaluator's own mask back along the path, one join
step at a time (the view applies to the first dataset only). -/
def along (jm : JoinMaskFn) (w : World) : List (Nat × Join) → Nat → View → Res
  | [], e, v =>
    match w[e]? with
    | some ds => match ds.ownMask with
      | some m => .mask (applyView v m)
      | none => .incompatible
    | none => .incompatible
  | (d, j) :: rest, e, v =>
    match along jm w rest e none with
    | .mask mR =>
      match w[d]?, w[j.other]? with
      | some L, some R => propagate jm L j R mR v
      | _, _ => .incompatible
    | r => r

/-- Membership by value as numpy compares values (the code on legal key tuples). -/
def Np.joinMask : JoinMaskFn := jmOf Np.rowMatch

/-- The join-mask function of the Spec: membership by exact value. -/
def Spec.joinMask : JoinMaskFn := jmOf Spec.rowMatch

/-- **The property oracle** on an observed output of `d.get_mask(state, view)`:
`incompatible` is right iff no join path leads to a dataset that can evaluate the selection;
a mask is right iff it is the by-value propagation along one of the admissible paths. -/
def specOk (w : World) (d : Nat) (v : View) (out : Res) : Bool :=
  let ps := paths w (w.length + 1) d []
  match out with
  | .incompatible => ps.isEmpty
  | .mask m => ps.any fun p => along Spec.joinMask w p.1 p.2 v == .mask m
  | _ => false

/-! ## Well-formedness (the hypothesis `P` of the byte-path theorem) -/

/-- Every pair of key items the join `j` of `L` with `R` can ever compare is within the modelled
domain: same kind (string/string or number/number) and legal items after promotion. -/
def pairOk (a b : Key) : Bool :=
  let c := common a.1 b.1
  kindsOk a.1 b.1 && validCell c (cast a.1 c a.2) && validCell c (cast b.1 c b.2)

def rowsOk (l r : List Key) : Bool := (l.zip r).all fun p => pairOk p.1 p.2

def joinOk (L : Dataset) (j : Join) (R : Dataset) : Bool :=
  arityOk j.own.length j.oth.length &&
  (j.own.length != j.oth.length || j.own.length == 1 ||
    L.rows.all fun lr => R.rows.all fun rr => rowsOk (rowKeys L.dts j.own lr) (rowKeys R.dts j.oth rr))

def worldOk (w : World) : Bool :=
  w.all fun L => L.joins.all fun j =>
    match w[j.other]? with
    | some R => joinOk L j R
    | none => false

/-- Hypothesis of the exactness theorems (**known finding F-C11d** outside it): no join ever compares
a 64-bit integer key that float64 cannot represent with a floating-point key — numpy promotes
such a pair to float64 (`np.result_type(int64, float64)`), in `np.isin` as well as in
`common_key_arrays`, and `2^53 + 1` then equals `2^53`. -/
def exactJoin (L : Dataset) (j : Join) (R : Dataset) : Bool :=
  L.rows.all fun lr => R.rows.all fun rr =>
    exactRows j.own.length j.oth.length (rowKeys L.dts j.own lr) (rowKeys R.dts j.oth rr)

def exactOk (w : World) : Bool :=
  w.all fun L => L.joins.all fun j =>
    match w[j.other]? with
    | some R => exactJoin L j R
    | none => true

end GlueVerif.Joins
