/-
C07 — model of `glue.core.hub.Hub` message delivery (core Lean only).

Three executable semantics over the same programs:

* `Spec.*`    what the property demands.  The only mutable state is the subscription table; the
              set of ignored classes is lexically scoped (a parameter); "delayed" is a *mode* of
              the interpreter (`Spec.held`, which cannot call a handler at all) rather than a flag.
* `Impl.*`    the code of `hub.py` after the F1 repair: `_paused`, `_delay_depth`, the `_queue`
              list, the `Counter` of ignored types, `broadcast` re-tested at flush time.
* `Old.*`     the code of the pinned tree before the repair: Boolean `_paused` only, every block
              exit flushes, the flush iterates the live list *object* by index and rebinds
              `self._queue = []` only after the loop finished (kept for the `decide`d witnesses).

Programs (`Op`) are what a client of the hub can do; handlers are programs too, so re-entrancy,
handlers that open delay blocks, subscribe, unsubscribe or raise are expressible.
-/
namespace GlueVerif.C07Hub

/-- A message class is its path from the root class `Message` (`[]`): `B(A)` is `A ++ [k]`.
The hierarchy is therefore a forest, `issubclass c d` is `d <+: c`, and `_mro_count` is
`length + 2`. -/
abbrev Cls := List Nat
abbrev Lid := Nat
abbrev Hid := Nat

structure Msg where
  cls : Cls
  tag : Nat
  deriving DecidableEq, Repr, Inhabited

/-- Subscription filters (functions of the message tag). -/
inductive Filt where
  | all | even | odd | none
  deriving DecidableEq, Repr, Inhabited

def Filt.accepts : Filt → Msg → Bool
  | .all, _ => true
  | .even, m => m.tag % 2 == 0
  | .odd, m => m.tag % 2 == 1
  | .none, _ => false

/-- `(handler, filter, priority)` as stored by `HubCallbackContainer`. -/
structure Sub where
  hid : Hid
  filt : Filt
  prio : Int
  deriving DecidableEq, Repr, Inhabited

/-- `Hub._subscriptions`: insertion-ordered `subscriber ↦ (message class ↦ Sub)`. -/
abbrev Cbs := List (Cls × Sub)
abbrev Subs := List (Lid × Cbs)

inductive Op where
  | bcast (m : Msg)
  | delay (body : List Op)              -- `with hub.delay_callbacks(): body`
  | ignore (c : Cls) (body : List Op)   -- `with hub.ignore_callbacks(c): body`
  | catch (body : List Op)              -- `try: body  except Boom: pass`
  | sub (l : Lid) (c : Cls) (s : Sub)
  | unsub (l : Lid) (c : Cls)
  | unsubAll (l : Lid)
  | kill (l : Lid)                      -- the listener object dies (weakref callbacks)
  | mark (n : Nat)                      -- observable program point (appends to the log)
  | raise
  deriving Repr, Inhabited

abbrev Handlers := List (List Op)

def handlerBody (hs : Handlers) (h : Hid) : List Op := hs.getD h []

inductive Ev where
  | enter (lvl : Nat) (l : Lid) (m : Msg)
  | exit (lvl : Nat) (l : Lid) (m : Msg)
  | mark (lvl : Nat) (n : Nat)
  deriving DecidableEq, Repr, Inhabited

def Ev.lvl : Ev → Nat
  | .enter k _ _ => k
  | .exit k _ _ => k
  | .mark k _ => k

def Ev.isMark : Ev → Bool
  | .mark _ _ => true
  | _ => false

inductive Res where
  | ok | exn | fuel
  deriving DecidableEq, Repr, Inhabited

/-- Result of a `try … finally`: an abnormal end of the `finally` part replaces the pending one. -/
def Res.andThen (body fin : Res) : Res := if fin = .ok then body else fin

def Res.caught : Res → Res
  | .exn => .ok
  | r => r

/-- Outcome of running something: new state, events appended to the log, how it ended. -/
abbrev Out (σ : Type) := σ × List Ev × Res

/-- Sequencing: the continuation runs only if the first part ended normally. -/
def seq {σ : Type} (o : Out σ) (k : σ → Out σ) : Out σ :=
  if o.2.2 = .ok then
    let o' := k o.1
    (o'.1, o.2.1 ++ o'.2.1, o'.2.2)
  else o

/-- What the instrumented handler of listener `l` appends around its body: `enter`, the body's
events, and `exit` if the body returned normally. -/
def bracket {σ : Type} (lvl : Nat) (l : Lid) (m : Msg) (o : Out σ) : Out σ :=
  (o.1, .enter lvl l m :: o.2.1 ++ (if o.2.2 = .ok then [.exit lvl l m] else []), o.2.2)

/-- `try: body finally: fin` where `fin` starts from the state the body left. -/
def finallyDo {σ : Type} (o : Out σ) (fin : σ → Out σ) : Out σ :=
  let o' := fin o.1
  (o'.1, o.2.1 ++ o'.2.1, o.2.2.andThen o'.2.2)

def caught {σ : Type} (o : Out σ) : Out σ := (o.1, o.2.1, o.2.2.caught)

/-! ## Subscription table (dict semantics: assignment to an existing key keeps its position) -/

def setCb : Cbs → Cls → Sub → Cbs
  | [], c, s => [(c, s)]
  | (c', s') :: rest, c, s => if c' = c then (c, s) :: rest else (c', s') :: setCb rest c s

def subscribe : Subs → Lid → Cls → Sub → Subs
  | [], l, c, s => [(l, [(c, s)])]
  | (l', cbs) :: rest, l, c, s =>
    if l' = l then (l', setCb cbs c s) :: rest else (l', cbs) :: subscribe rest l c s

/-- `Hub.unsubscribe`: pops the class; an emptied container keeps the listener's slot. -/
def unsubscribe (subs : Subs) (l : Lid) (c : Cls) : Subs :=
  subs.map fun e => if e.1 = l then (e.1, e.2.filter fun cb => cb.1 ≠ c) else e

def unsubscribeAll (subs : Subs) (l : Lid) : Subs := subs.filter fun e => e.1 ≠ l

/-! ## `_find_handlers` -/

/-- `max(messages, key=_mro_count)` over the subscribed super-classes of `mc` (first maximum). -/
def bestSub (mc : Cls) : Cbs → Option (Cls × Sub)
  | [] => none
  | (c, s) :: rest =>
    match bestSub mc rest with
    | none => if c.isPrefixOf mc then some (c, s) else none
    | some (c', s') =>
      if c.isPrefixOf mc ∧ c'.length ≤ c.length then some (c, s) else some (c', s')

/-- Per subscriber, in dict order: most specific subscription, kept if its filter accepts. -/
def candidates (subs : Subs) (m : Msg) : List (Lid × Sub) :=
  subs.filterMap fun e =>
    match bestSub m.cls e.2 with
    | some (_, s) => if s.filt.accepts m then some (e.1, s) else none
    | none => none

/-- Stable insertion: `x` goes before the first element whose priority is not higher. -/
def insPrio (x : Lid × Sub) : List (Lid × Sub) → List (Lid × Sub)
  | [] => [x]
  | y :: ys => if x.2.prio < y.2.prio then y :: insPrio x ys else x :: y :: ys

/-- `sorted(…, key=priority, reverse=True)` (stable). -/
def sortPrio : List (Lid × Sub) → List (Lid × Sub)
  | [] => []
  | x :: xs => insPrio x (sortPrio xs)

abbrev Target := Lid × Hid

def targets (subs : Subs) (m : Msg) : List Target :=
  (sortPrio (candidates subs m)).map fun e => (e.1, e.2.hid)

/-- Effect of the operations that only touch the subscription table. -/
def subsOp (subs : Subs) : Op → Subs
  | .sub l c s => subscribe subs l c s
  | .unsub l c => unsubscribe subs l c
  | .unsubAll l => unsubscribeAll subs l
  | .kill l => unsubscribeAll subs l
  | _ => subs

/-! ## Syntactic functions on programs (used in the statements of the theorems) -/

mutual
/-- All messages a program text can broadcast itself, in program (pre-)order. -/
def bcastsOp : Op → List Msg
  | .bcast m => [m]
  | .delay b => bcastsOps b
  | .ignore _ b => bcastsOps b
  | .catch b => bcastsOps b
  | _ => []
def bcastsOps : List Op → List Msg
  | [] => []
  | op :: rest => bcastsOp op ++ bcastsOps rest
end

mutual
/-- The program text contains neither `raise` nor an `ignore` block. -/
def plainOp : Op → Bool
  | .raise => false
  | .ignore _ _ => false
  | .delay b => plainOps b
  | .catch b => plainOps b
  | _ => true
def plainOps : List Op → Bool
  | [] => true
  | op :: rest => plainOp op && plainOps rest
end

/-- Events of the instrumented handlers at nesting level `lvl` (the handlers called directly by
the broadcasts of the code running at that level). -/
def atLevel (lvl : Nat) (es : List Ev) : List Ev := es.filter fun e => e.lvl == lvl

/-! ## Spec -/
namespace Spec

/-- Outcome in delayed mode: subscriptions, marks passed, messages queued, how it ended. -/
abbrev HOut := Subs × List Ev × List Msg × Res

def seqH (o : HOut) (k : Subs → HOut) : HOut :=
  if o.2.2.2 = .ok then
    let o' := k o.1
    (o'.1, o.2.1 ++ o'.2.1, o.2.2.1 ++ o'.2.2.1, o'.2.2.2)
  else o

/-- Delayed mode: nothing can be delivered (no handler table, no recursion into `live`); returns
the marks passed, and the messages to be delivered when the outermost block closes. -/
def held : Nat → Nat → List Cls → Subs → List Op → HOut
  | _, _, _, subs, [] => (subs, [], [], .ok)
  | 0, _, _, subs, _ :: _ => (subs, [], [], .fuel)
  | f + 1, lvl, ign, subs, op :: rest =>
    seqH
      (match op with
       | .bcast m => (subs, [], if ign.contains m.cls then [] else [m], .ok)
       | .delay body => held f lvl ign subs body
       | .ignore c body => held f lvl (c :: ign) subs body
       | .catch body =>
         let o := held f lvl ign subs body
         (o.1, o.2.1, o.2.2.1, o.2.2.2.caught)
       | .mark n => (subs, [.mark lvl n], [], .ok)
       | .raise => (subs, [], [], .exn)
       | op => (subsOp subs op, [], [], .ok))
      (fun s => held f lvl ign s rest)

mutual
/-- Live mode (no delay block open). -/
def live (hs : Handlers) : Nat → Nat → List Cls → Subs → List Op → Out Subs
  | _, _, _, subs, [] => (subs, [], .ok)
  | 0, _, _, subs, _ :: _ => (subs, [], .fuel)
  | f + 1, lvl, ign, subs, op :: rest =>
    seq
      (match op with
       | .bcast m =>
         if ign.contains m.cls then (subs, [], .ok)
         else deliver hs f lvl ign subs (targets subs m) m
       | .delay body =>
         -- nothing is delivered while the block is open; when it closes (normally or not)
         -- everything queued is delivered once, in order
         let h := held f lvl ign subs body
         finallyDo (h.1, h.2.1, h.2.2.2) (fun s => flush hs f lvl ign s h.2.2.1)
       | .ignore c body => live hs f lvl (c :: ign) subs body
       | .catch body => caught (live hs f lvl ign subs body)
       | .mark n => (subs, [.mark lvl n], .ok)
       | .raise => (subs, [], .exn)
       | op => (subsOp subs op, [], .ok))
      (fun s => live hs f lvl ign s rest)

/-- Call the handlers computed at broadcast time, one after the other. -/
def deliver (hs : Handlers) : Nat → Nat → List Cls → Subs → List Target → Msg → Out Subs
  | _, _, _, subs, [], _ => (subs, [], .ok)
  | 0, _, _, subs, _ :: _, _ => (subs, [], .fuel)
  | f + 1, lvl, ign, subs, t :: ts, m =>
    seq (bracket lvl t.1 m (live hs f (lvl + 1) ign subs (handlerBody hs t.2)))
      (fun s => deliver hs f lvl ign s ts m)

/-- The outermost delay block closed: deliver what was queued, once, in order. -/
def flush (hs : Handlers) : Nat → Nat → List Cls → Subs → List Msg → Out Subs
  | _, _, _, subs, [] => (subs, [], .ok)
  | 0, _, _, subs, _ :: _ => (subs, [], .fuel)
  | f + 1, lvl, ign, subs, m :: ms =>
    seq
      (if ign.contains m.cls then (subs, [], .ok)
       else deliver hs f lvl ign subs (targets subs m) m)
      (fun s => flush hs f lvl ign s ms)
end

/-- A whole client program, run on a fresh hub. -/
def run (hs : Handlers) (fuel : Nat) (prog : List Op) : Out Subs :=
  live hs fuel 0 [] [] prog

end Spec

/-! ## The `Counter` of ignored types -/

abbrev Counter := List (Cls × Nat)

def Counter.get : Counter → Cls → Nat
  | [], _ => 0
  | (c', n) :: rest, c => if c' = c then n else Counter.get rest c

def Counter.incr : Counter → Cls → Counter
  | [], c => [(c, 1)]
  | (c', n) :: rest, c => if c' = c then (c', n + 1) :: rest else (c', n) :: Counter.incr rest c

def Counter.decr : Counter → Cls → Counter
  | [], _ => []
  | (c', n) :: rest, c => if c' = c then (c', n - 1) :: rest else (c', n) :: Counter.decr rest c

/-! ## Impl — `hub.py` with the F1 repair (depth counter, queue detached before the flush) -/
namespace Impl

structure St where
  subs : Subs := []
  ignore : Counter := []
  paused : Bool := false
  depth : Nat := 0
  queue : List Msg := []
  deriving DecidableEq, Repr, Inhabited

mutual
def exec (hs : Handlers) : Nat → Nat → St → List Op → Out St
  | _, _, st, [] => (st, [], .ok)
  | 0, _, st, _ :: _ => (st, [], .fuel)
  | f + 1, lvl, st, op :: rest =>
    seq
      (match op with
       | .bcast m =>
         -- Hub.broadcast
         if st.ignore.get m.cls > 0 then (st, [], .ok)
         else if st.paused then ({ st with queue := st.queue ++ [m] }, [], .ok)
         else deliver hs f lvl st (targets st.subs m) m
       | .delay body =>
         -- Hub.delay_callbacks (repaired)
         finallyDo (exec hs f lvl { st with depth := st.depth + 1, paused := true } body)
           (fun s =>
             let s' := { s with depth := s.depth - 1 }
             if s'.depth = 0 then
               flush hs f lvl { s' with paused := false, queue := [] } s'.queue
             else (s', [], .ok))
       | .ignore c body =>
         -- Hub.ignore_callbacks
         finallyDo (exec hs f lvl { st with ignore := st.ignore.incr c } body)
           (fun s => ({ s with ignore := s.ignore.decr c }, [], .ok))
       | .catch body => caught (exec hs f lvl st body)
       | .mark n => (st, [.mark lvl n], .ok)
       | .raise => (st, [], .exn)
       | op => ({ st with subs := subsOp st.subs op }, [], .ok))
      (fun s => exec hs f lvl s rest)

/-- `for subscriber, handler in self._find_handlers(message): handler(message)` -/
def deliver (hs : Handlers) : Nat → Nat → St → List Target → Msg → Out St
  | _, _, st, [], _ => (st, [], .ok)
  | 0, _, st, _ :: _, _ => (st, [], .fuel)
  | f + 1, lvl, st, t :: ts, m =>
    seq (bracket lvl t.1 m (exec hs f (lvl + 1) st (handlerBody hs t.2)))
      (fun s => deliver hs f lvl s ts m)

/-- `for message in queue: self.broadcast(message)` over the detached list. -/
def flush (hs : Handlers) : Nat → Nat → St → List Msg → Out St
  | _, _, st, [] => (st, [], .ok)
  | 0, _, st, _ :: _ => (st, [], .fuel)
  | f + 1, lvl, st, m :: ms =>
    seq
      (if st.ignore.get m.cls > 0 then (st, [], .ok)
       else if st.paused then ({ st with queue := st.queue ++ [m] }, [], .ok)
       else deliver hs f lvl st (targets st.subs m) m)
      (fun s => flush hs f lvl s ms)
end

def run (hs : Handlers) (fuel : Nat) (prog : List Op) : Out St :=
  exec hs fuel 0 {} prog

end Impl

/-! ## Old — `hub.py` of the pinned tree (before the F1 repair) -/
namespace Old

/-- Queue list objects have identity: `heap[i]` is the content of object `i`, `cur` is the object
currently bound to `self._queue`. -/
structure St where
  subs : Subs := []
  ignore : Counter := []
  paused : Bool := false
  heap : List (List Msg) := [[]]
  cur : Nat := 0
  deriving DecidableEq, Repr, Inhabited

def St.enqueue (st : St) (m : Msg) : St :=
  { st with heap := st.heap.modify st.cur (· ++ [m]) }

def St.curQueue (st : St) : List Msg := st.heap.getD st.cur []

mutual
def exec (hs : Handlers) : Nat → Nat → St → List Op → Out St
  | _, _, st, [] => (st, [], .ok)
  | 0, _, st, _ :: _ => (st, [], .fuel)
  | f + 1, lvl, st, op :: rest =>
    seq
      (match op with
       | .bcast m =>
         if st.ignore.get m.cls > 0 then (st, [], .ok)
         else if st.paused then (st.enqueue m, [], .ok)
         else deliver hs f lvl st (targets st.subs m) m
       | .delay body =>
         -- self._paused = True; try: yield
         -- finally: self._paused = False; for message in self._queue: …; self._queue = []
         finallyDo (exec hs f lvl { st with paused := true } body)
           (fun s =>
             seq (flush hs f lvl { s with paused := false } s.cur 0)
               (fun s' => ({ s' with heap := s'.heap ++ [[]], cur := s'.heap.length }, [], .ok)))
       | .ignore c body =>
         finallyDo (exec hs f lvl { st with ignore := st.ignore.incr c } body)
           (fun s => ({ s with ignore := s.ignore.decr c }, [], .ok))
       | .catch body => caught (exec hs f lvl st body)
       | .mark n => (st, [.mark lvl n], .ok)
       | .raise => (st, [], .exn)
       | op => ({ st with subs := subsOp st.subs op }, [], .ok))
      (fun s => exec hs f lvl s rest)
termination_by structural f => f

def deliver (hs : Handlers) : Nat → Nat → St → List Target → Msg → Out St
  | _, _, st, [], _ => (st, [], .ok)
  | 0, _, st, _ :: _, _ => (st, [], .fuel)
  | f + 1, lvl, st, t :: ts, m =>
    seq (bracket lvl t.1 m (exec hs f (lvl + 1) st (handlerBody hs t.2)))
      (fun s => deliver hs f lvl s ts m)
termination_by structural f => f

/-- The list iterator over object `q`, at index `i`: it sees elements appended meanwhile. -/
def flush (hs : Handlers) : Nat → Nat → St → Nat → Nat → Out St
  | 0, _, st, q, i => (st, [], if i < (st.heap.getD q []).length then .fuel else .ok)
  | f + 1, lvl, st, q, i =>
    match (st.heap.getD q [])[i]? with
    | none => (st, [], .ok)
    | some m =>
      seq
        (if st.ignore.get m.cls > 0 then (st, [], .ok)
         else if st.paused then (st.enqueue m, [], .ok)
         else deliver hs f lvl st (targets st.subs m) m)
        (fun s => flush hs f lvl s q (i + 1))
termination_by structural f => f
end

def run (hs : Handlers) (fuel : Nat) (prog : List Op) : Out St :=
  exec hs fuel 0 {} prog

end Old

end GlueVerif.C07Hub
