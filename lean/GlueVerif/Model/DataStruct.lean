/-
L10 model: the structural state of a `glue.core.data.Data` object (C17).

Mirrors `glue/core/data.py`: `add_component` (shape check, pixel / world component creation),
`remove_component` (with the cascade over dependent derived components), `reorder_components`,
`update_id`, `update_components`, `update_values_from_data`, the `coords` setter /
`_update_world_components`, `ComponentID.label` / `Data.label` setters, `find_component_id`, and the
hub messages each of them broadcasts (`glue/core/message.py`).  Core Lean only.

`Impl`  = `step` (the code that exists, *with* the repairs F13/F16–F25 of `props.d/C17/fixes` and
          C14's F14; arbitrary arguments: `step` first accounts for ComponentID objects it has not seen,
          then runs `stepCore`; `stepUnrepaired` keeps the behaviour before F20–F23 for the `decide`d
          witnesses);
`Spec`  = `specInv` (structural invariant on an observation), `specStep` (the messages of one call
          explain exactly the observed change), `specTrace` (both, along a whole history).
Identifiers (`ComponentID` objects) are natural numbers, labels are natural-number codes (the
harness owns the table code ↔ string; `pixelLabel` / `worldLabel` mirror `pixel_label` /
`axis_label`).
-/
namespace GlueVerif.DataStruct

/-- Identifier of a `ComponentID` object. -/
scoped notation "Cid" => Nat
/-- Code of a label. -/
scoped notation "Label" => Nat
/-- Array shape. -/
scoped notation "Shape" => List Nat

/-- Which class the `Component` stored under an id has. -/
inductive Kind where
  | main                          -- `Component` / `CategoricalComponent` holding an array
  | derived (deps : List Cid)     -- `DerivedComponent`; `deps` = `link.get_from_ids()`
  | pixel (axis : Nat)            -- `CoordinateComponent(self, axis)`
  | world (axis : Nat)            -- `CoordinateComponent(self, axis, world=True)`
  deriving DecidableEq, Repr, Inhabited

/-- One entry of `Data._components` (an `OrderedDict`). `shape` / `val` are the array's shape and a
tag identifying its values; they are only meaningful for `main` components (derived and coordinate
components compute their shape from the parent dataset). -/
structure Comp where
  cid : Cid
  kind : Kind
  shape : Shape
  val : Nat
  deriving DecidableEq, Repr, Inhabited

/-- Hub messages (sender is always the dataset). -/
inductive Msg where
  | add (c : Cid)                      -- DataAddComponentMessage
  | remove (c : Cid)                   -- DataRemoveComponentMessage
  | changed                            -- ComponentsChangedMessage
  | replaced (o n : Cid)               -- ComponentReplacedMessage
  | reorder (cs : List Cid)            -- DataReorderComponentMessage
  | rename (c : Cid)                   -- DataRenameComponentMessage
  | update                             -- DataUpdateMessage(attribute='label')
  | numerical (cs : Option (List Cid)) -- NumericalDataChangedMessage(components_changed)
  | ext                                -- ExternallyDerivableComponentsChangedMessage
  deriving DecidableEq, Repr, Inhabited

/-- Python exceptions a call can end with. -/
inductive Err where
  | value | type | incompatible
  deriving DecidableEq, Repr, Inhabited

structure State where
  comps : List Comp := []             -- `_components`, in dictionary order
  pix : List Cid := []                -- `_pixel_component_ids`
  world : List Cid := []              -- `_world_component_ids`
  shape : Shape := []                 -- `_shape`
  coords : Option Nat := none         -- identity of the `coords` object
  nlinks : Nat := 0                   -- `len(_coordinate_links)`
  labels : List (Cid × Label) := []   -- `ComponentID.label` of every id ever labelled (newest first)
  dlabel : Label := 0                 -- `Data.label`
  hub : Bool := false                 -- `self.hub is not None`
  inDc : Bool := false                -- member of the DataCollection
  linked : List Cid := []             -- `_externally_derivable_components`
  next : Cid := 0                     -- next fresh identity
  deriving DecidableEq, Repr, Inhabited

abbrev Res := State × List Msg

def Res.bind (r : Res) (f : State → Res) : Res :=
  let r2 := f r.1
  (r2.1, r.2 ++ r2.2)

def cids (cs : List Comp) : List Cid := cs.map (·.cid)

def State.label (s : State) (c : Cid) : Label := (s.labels.lookup c).getD 0

/-- `pixel_label(i, ndim)` as a code: `100 + 10·ndim + i` for `1 ≤ ndim ≤ 3`
("Pixel Axis i [xyz…]"), `100 + i` otherwise ("Pixel Axis i"). -/
def pixelLabel (i ndim : Nat) : Label :=
  if 1 ≤ ndim ∧ ndim ≤ 3 then 100 + 10 * ndim + i else 100 + i

/-- `axis_label(IdentityCoordinates, i)` = "World i" as code `200 + i`. -/
def worldLabel (i : Nat) : Label := 200 + i

def Kind.isCoord : Kind → Bool
  | .pixel _ => true
  | .world _ => true
  | _ => false

def Kind.isMain : Kind → Bool
  | .main => true
  | _ => false

def Kind.isDerived : Kind → Bool
  | .derived _ => true
  | _ => false

def Kind.dependsOn (c : Cid) : Kind → Bool
  | .derived deps => deps.contains c
  | _ => false

/-- `component.shape`: the array's shape for a main component, the parent dataset's shape
otherwise. -/
def compShape (dshape : Shape) (c : Comp) : Shape :=
  match c.kind with
  | .main => c.shape
  | _ => dshape

/-! ## primitives -/

/-- `self._components[cid] = component`. -/
def insertComp (cs : List Comp) (c : Comp) : List Comp :=
  if (cids cs).contains c.cid then cs.map (fun x => if x.cid == c.cid then c else x) else cs ++ [c]

/-- Tail of `add_component` once the checks passed and the id is known: set `_shape` if it is still
`()`, store the component; a new id is announced as an addition, a replacement under an id that was
already a key as a change of that component's values (repair F21; the harness always hands in a new
`Component` object, so the `current is component` no-op never occurs). -/
def addRaw (s : State) (c : Comp) : Res :=
  let cshape := compShape s.shape c
  let shape' := if s.shape == [] && cshape != [] then cshape else s.shape
  let present := (cids s.comps).contains c.cid
  ({ s with shape := shape', comps := insertComp s.comps c },
   if s.hub then (if present then [.numerical (some [c.cid])] else [.add c.cid, .changed]) else [])

/-- `add_component` before the repair F21: a replacement under an id in use is not announced. -/
def addRawSilent (s : State) (c : Comp) : Res :=
  ((addRaw s c).1, if s.hub && !(cids s.comps).contains c.cid then [.add c.cid, .changed] else [])

def announceAdds (s : State) (ids : List Cid) : List Msg :=
  if s.hub then ids.flatMap (fun c => [Msg.add c, Msg.changed]) else []

/-- `_update_pixel_components(ndim)`: `ndim` brand-new `PixelComponentID`s, each stored and
announced through `add_component`, appended to `_pixel_component_ids`. (A new object can never
already be a key, and a coordinate component never sets `_shape`.) -/
def newPixels (s : State) (ndim : Nat) : Res :=
  let ids := (List.range ndim).map (s.next + ·)
  ({ s with
      comps := s.comps ++ (List.range ndim).map (fun i => ⟨s.next + i, .pixel i, [], 0⟩),
      pix := s.pix ++ ids,
      labels := (List.range ndim).map (fun i => (s.next + i, pixelLabel i ndim)) ++ s.labels,
      next := s.next + ndim },
   announceAdds s ids)

/-- The world half of `_update_world_components` when `coords` is set. -/
def newWorlds (s : State) (ndim : Nat) : Res :=
  let ids := (List.range ndim).map (s.next + ·)
  ({ s with
      comps := s.comps ++ (List.range ndim).map (fun i => ⟨s.next + i, .world i, [], 0⟩),
      world := s.world ++ ids,
      labels := (List.range ndim).map (fun i => (s.next + i, worldLabel i)) ++ s.labels,
      nlinks := 2 * ndim,
      next := s.next + ndim },
   announceAdds s ids)

/-- `remove_component` on the component table: pop `c`; every derived component that takes `c` as
an input (list computed once, after the pop) is removed recursively, each announced before `c`
itself. Returns the new table and the removed ids in announcement order. -/
def removeRec : Nat → List Comp → Cid → List Comp × List Cid
  | 0, cs, _ => (cs, [])
  | fuel + 1, cs, c =>
    if (cids cs).contains c then
      let cs1 := cs.filter (fun x => x.cid != c)
      let kids := (cs1.filter (fun x => x.kind.dependsOn c)).map (·.cid)
      let r := kids.foldl (fun (acc : List Comp × List Cid) k =>
        let r := removeRec fuel acc.1 k
        (r.1, acc.2 ++ r.2)) (cs1, [])
      (r.1, r.2 ++ [c])
    else (cs, [])

def announceRemoves (s : State) (ids : List Cid) : List Msg :=
  if s.hub then ids.flatMap (fun c => [Msg.remove c, Msg.changed]) else []

def removeComp (s : State) (c : Cid) : Res :=
  let r := removeRec s.comps.length s.comps c
  ({ s with comps := r.1 }, announceRemoves s r.2)

/-- `for cid in ids: self.remove_component(cid)`. -/
def removeAll (s : State) : List Cid → Res
  | [] => (s, [])
  | c :: cs => (removeComp s c).bind (removeAll · cs)

/-- `_update_world_components(ndim)` (all broadcasts happen inside one `delay_callbacks` block, which
only postpones them): drop the old world components, forget the pixel↔world links (F16), and
re-create both if `coords` is set. -/
def updateWorld (s : State) (ndim : Nat) : Res :=
  (removeAll s s.world).bind fun s1 =>
    let s2 := { s1 with world := [], nlinks := 0 }
    if s2.coords.isSome then newWorlds s2 ndim else (s2, [])

def createPixelWorld (s : State) (ndim : Nat) : Res :=
  (newPixels s ndim).bind (updateWorld · ndim)

/-- `coords` setter. -/
def setCoords (s : State) (v : Option Nat) : Res :=
  if s.coords != v then
    let s1 := { s with coords := v }
    if s1.comps.isEmpty then (s1, []) else updateWorld s1 s1.shape.length
  else (s, [])

/-- `_check_can_add` for a plain component of shape `shape` (repair F23): anything goes into an empty
dataset; while the dataset has no shape yet and holds coordinate components but no array (a session
being loaded: the coordinate components are restored first) any array is accepted; otherwise the
shape must be the dataset's — in particular a dataset of 0-d arrays only takes 0-d arrays. -/
def canAdd (s : State) (shape : Shape) : Bool :=
  s.comps.isEmpty
  || (s.shape == [] && s.comps.any (·.kind.isCoord) && s.comps.all (fun c => !c.kind.isMain))
  || shape == s.shape

/-- `_check_can_add` before the repair F23: a dataset whose components all have shape `()` accepted an
array of any shape. -/
def canAddUnrepaired (s : State) (shape : Shape) : Bool :=
  s.comps.isEmpty || s.comps.all (fun c => compShape s.shape c == []) || shape == s.shape

/-- `add_component(array, cid)` after the shape check. -/
def addMain (s : State) (c : Cid) (shape : Shape) (val : Nat) : Res :=
  (if s.comps.isEmpty then createPixelWorld s shape.length else (s, [])).bind fun s1 =>
    addRaw s1 ⟨c, .main, shape, val⟩

def fresh (s : State) (l : Label) : State × Cid :=
  ({ s with next := s.next + 1, labels := (s.next, l) :: s.labels }, s.next)

/-! ## find_component_id -/

def mainCids (s : State) : List Cid := cids (s.comps.filter (·.kind.isMain))
def derivedCids (s : State) : List Cid := cids (s.comps.filter (·.kind.isDerived))
def coordCids (s : State) : List Cid := cids (s.comps.filter (·.kind.isCoord))

def findIn (lab : Cid → Label) (l : Label) : List (List Cid) → Option Cid
  | [] => none
  | t :: ts =>
    match t.filter (fun c => lab c == l) with
    | [c] => some c
    | [] => findIn lab l ts
    | _ => none

/-- `Data.find_component_id(label)` for a string label: first tier among main, derived,
coordinate, externally derivable that has a match decides — its match if unique, else `None`. -/
def findImpl (s : State) (l : Label) : Option Cid :=
  findIn s.label l [mainCids s, derivedCids s, coordCids s, s.linked]

/-! ## operations (concrete arguments) -/

/-- The dataset handed to `update_values_from_data`: label, main components (label, value tag) that
all have shape `shape`, coordinates object. -/
structure Other where
  label : Label
  comps : List (Label × Nat)
  shape : Shape
  coords : Option Nat
  deriving DecidableEq, Repr, Inhabited

inductive Op where
  | addArray (l : Label) (shape : Shape) (val : Nat)        -- add_component(array, 'l')
  | addArrayAt (c : Cid) (shape : Shape) (val : Nat)        -- add_component(array, cid_object)
  | addDerived (viaLink : Bool) (l : Label) (deps : List Cid)
  | remove (c : Cid)
  | reorder (cs : List Cid)
  | updateId (old new : Cid)
  | updateComponents (m : List (Cid × Shape × Nat))
  | updateFrom (o : Other)
  | setCoords (v : Option Nat)
  | rename (c : Cid) (l : Label)
  | setLabel (l : Label)
  | attach | detach | register
  | setLinked (cs : List Cid)
  | nop
  deriving DecidableEq, Repr, Inhabited

structure Out where
  state : State
  msgs : List Msg
  err : Option Err
  deriving Repr, Inhabited

def ok (r : Res) : Out := ⟨r.1, r.2, none⟩
def fail (s : State) (e : Err) : Out := ⟨s, [], some e⟩

/-- `OrderedDict(pairs)`: later duplicates of a key overwrite the value, the first position stays. -/
def dictOfPairs (cs : List Comp) : List Comp := cs.foldl insertComp []

def replaceFirst (xs : List Cid) (o n : Cid) : List Cid :=
  match xs with
  | [] => []
  | x :: rest => if x == o then n :: rest else x :: replaceFirst rest o n

/-- `link.replace_ids(old, new)` on the inputs of a derived component. -/
def Kind.replaceDep (o n : Cid) : Kind → Kind
  | .derived deps => .derived (deps.map fun x => if x == o then n else x)
  | k => k

def Comp.replaceDep (o n : Cid) (x : Comp) : Comp := { x with kind := x.kind.replaceDep o n }

def updateIdImpl (s : State) (old new : Cid) : Res :=
  if new == old then (s, []) else
  let inC := (cids s.comps).contains old
  let comps0 := if inC then dictOfPairs (s.comps.map fun x => if x.cid == old then { x with cid := new } else x)
                else s.comps
  let inP := s.pix.contains old
  let inW := s.world.contains old
  -- C14 / F14: when anything was re-assigned, the derived components that read `old` follow
  let comps' := if inC || inP || inW then comps0.map (Comp.replaceDep old new) else comps0
  let s' := { s with comps := comps',
                     pix := if inP then replaceFirst s.pix old new else s.pix,
                     world := if inW then replaceFirst s.world old new else s.world }
  (s', if (inC || inP || inW) && s.hub then [.replaced old new] else [])

def reorderImpl (s : State) (cs : List Cid) : Out :=
  let cur := cids s.comps
  if cs.length != cur.length then fail s .value
  else if !(cs.all cur.contains && cur.all cs.contains) then fail s .value
  else if cs == cur then ok (s, [])
  else
    let comps' := cs.filterMap (fun c => s.comps.find? (·.cid == c))
    ok ({ s with comps := comps' }, if s.hub then [.reorder cs] else [])

/-- First failing entry of an `update_components` mapping (checked before anything is assigned:
F17): `get_component` raises IncompatibleAttribute for an id that is neither a component nor
externally derivable. -/
def updateCheck (s : State) : List (Cid × Shape × Nat) → Option Err
  | [] => none
  | (c, sh, _) :: rest =>
    if !((cids s.comps).contains c || s.linked.contains c) then some .incompatible
    -- F24: only components that hold an array can take new values (a derived / coordinate component,
    -- also an externally derivable one, is refused)
    else if !s.comps.any (fun x => x.cid == c && x.kind.isMain) then some .value
    else if sh != s.shape then some .value
    else updateCheck s rest

def applyUpdates (cs : List Comp) (m : List (Cid × Shape × Nat)) : List Comp :=
  cs.map fun x =>
    match m.lookup x.cid with
    | some (sh, v) => if x.kind.isMain then { x with shape := sh, val := v } else x
    | none => x

def updateComponentsImpl (s : State) (m : List (Cid × Shape × Nat)) : Out :=
  match updateCheck s m with
  | some e => fail s e
  | none =>
    ok ({ s with comps := applyUpdates s.comps m },
        if s.hub then [.numerical (some (m.map (·.1)))] else [])

/-- `Data.label = l`. -/
def setLabelImpl (s : State) (l : Label) : Res :=
  if s.dlabel != l then ({ s with dlabel := l }, if s.hub then [.update] else []) else (s, [])

def nonCoord (s : State) : List Comp := s.comps.filter (fun c => !c.kind.isCoord)

/-- The "update components that exist in both" loop of `update_values_from_data`: every current
non-coordinate component whose label is in both label sets takes the array of the other dataset's
component with that label (a derived component is left as it is here: it has no array). -/
def applyRefresh (s : State) (both : List Label) (o : Other) : List Comp :=
  s.comps.map fun x =>
    if !x.kind.isCoord && both.contains (s.label x.cid) && x.kind.isMain then
      { x with shape := o.shape, val := (o.comps.lookup (s.label x.cid)).getD 0 }
    else x

/-- The "add components that did not exist" loop: `add_component(comp_new, label)` for every new
label, in the other dataset's order; stops at the first failing shape check. -/
def addNewOnes (s : State) (shape : Shape) : List (Label × Nat) → State × List Msg × Option Err
  | [] => (s, [], none)
  | (l, v) :: rest =>
    if !canAdd s shape then (s, [], some .value) else
    let (s0, c) := fresh s l
    let r := addMain s0 c shape v
    let r2 := addNewOnes r.1 shape rest
    (r2.1, r.2 ++ r2.2.1, r2.2.2)

/-- Stage 1 of `update_values_from_data`: non-coordinate components whose label does not occur in
the other dataset are removed, in table order. -/
def ufRemove (s : State) (newLabels : List Label) : Res :=
  removeAll s (((nonCoord s).filter fun c => !newLabels.contains (s.label c.cid)).map (·.cid))

/-- Stage 2 (only when the number of dimensions changes, repair F13): `self.coords = None`, then the
pixel components are removed and `_pixel_component_ids` emptied. -/
def ufDropCoords (s1 : State) : Res :=
  (setCoords s1 none).bind fun s2 =>
    let r := removeAll s2 s2.pix
    ({ r.1 with pix := [] }, r.2)

/-- Stage 3: `_shape = data._shape`, and new pixel components when the number of dimensions
changed. -/
def ufReshape (s2 : State) (sh : Shape) (ndimChanged : Bool) : Res :=
  let s3 := { s2 with shape := sh }
  if ndimChanged then newPixels s3 sh.length else (s3, [])

/-- Stages 1–3 in a row. -/
def ufStages (s : State) (o : Other) : Res :=
  let ndimChanged := o.shape.length != s.shape.length
  ((ufRemove s (o.comps.map (·.1))).bind fun s1 =>
    if ndimChanged then ufDropCoords s1 else (s1, [])).bind (ufReshape · o.shape ndimChanged)

/-- Last stage: label, coordinates, `NumericalDataChangedMessage`. -/
def ufFinish (s5 : State) (o : Other) : Res :=
  ((setLabelImpl s5 o.label).bind (setCoords · o.coords)).bind fun s7 =>
    (s7, if s7.hub then [.numerical none] else [])

/-- `update_values_from_data(other)` with repair F13: coordinate components are not matched by
label, and pixel / world components are re-generated when the number of dimensions changes. -/
def updateFromImpl (s : State) (o : Other) : Out :=
  let oldLabels := (nonCoord s).map (fun c => s.label c.cid)
  let newLabels := o.comps.map (·.1)
  if !decide oldLabels.Nodup then fail s .value
  else if !decide newLabels.Nodup then fail s .value
  else
    let r3 := ufStages s o
    let both := oldLabels.filter newLabels.contains
    let s4 := { r3.1 with comps := applyRefresh r3.1 both o }
    let r5 := addNewOnes s4 o.shape (o.comps.filter fun p => !oldLabels.contains p.1)
    match r5.2.2 with
    | some e => ⟨r5.1, r3.2 ++ r5.2.1, some e⟩
    | none =>
      let r6 := ufFinish r5.1 o
      ok (r6.1, r3.2 ++ r5.2.1 ++ r6.2)

def addDerivedImpl (s : State) (viaLink : Bool) (l : Label) (deps : List Cid) : Out :=
  if viaLink then
    -- add_component_link: the target id is created first, then the inputs are checked
    let (s0, c) := fresh s l
    if !deps.all (cids s.comps).contains then ⟨s0, [], some .value⟩
    else if s0.comps.isEmpty then ⟨s0, [], some .type⟩
    else ok (addRaw s0 ⟨c, .derived deps, [], 0⟩)
  else
    if s.comps.isEmpty then fail s .type
    else
      let (s0, c) := fresh s l
      ok (addRaw s0 ⟨c, .derived deps, [], 0⟩)

/-- One call of the mutation API whose arguments are ComponentID objects the model already knows
(`< next`; `step` below allocates the others first). -/
def stepCore (s : State) : Op → Out
  | .addArray l shape val =>
    if !canAdd s shape then fail s .value else
    let (s0, c) := fresh s l
    ok (addMain s0 c shape val)
  | .addArrayAt c shape val =>
    -- F21: an id already in use only takes a component of the same kind (here: an array replaces an
    -- array, announced by `addRaw`); coordinate and derived components are not replaced
    if s.comps.any (fun x => x.cid == c && !x.kind.isMain) then fail s .value
    else if !canAdd s shape then fail s .value else ok (addMain s c shape val)
  | .addDerived viaLink l deps => addDerivedImpl s viaLink l deps
  | .remove c =>
    -- F20: pixel / world components are managed by the dataset (`_update_world_components` and
    -- `update_values_from_data` remove them through the private `_remove_component` = `removeComp`)
    if s.comps.any (fun x => x.cid == c && x.kind.isCoord) then fail s .value else ok (removeComp s c)
  | .reorder cs => reorderImpl s cs
  | .updateId old new =>
    -- F22: `new` must not already be a component of the dataset
    if new != old && (cids s.comps).contains new then fail s .value else ok (updateIdImpl s old new)
  | .updateComponents m => updateComponentsImpl s m
  | .updateFrom o => updateFromImpl s o
  | .setCoords v => ok (setCoords s v)
  | .rename c l =>
    -- `ComponentID.label = l` (F19: nothing happens when the label is already `l`)
    if s.label c == l then ok (s, []) else
    ok ({ s with labels := (c, l) :: s.labels },
        if (cids s.comps).contains c && s.hub then [.rename c] else [])
  | .setLabel l => ok (setLabelImpl s l)
  | .attach =>
    -- `DataCollection.append`: from now on the collection's link manager owns the externally
    -- derivable components (not modelled: reported as empty while the dataset is a member)
    if s.inDc then ok (s, []) else ok ({ s with hub := true, inDc := true, linked := [] }, [])
  | .detach => ok ({ s with inDc := false }, [])
  | .register => ok ({ s with hub := true }, [])
  | .setLinked cs =>
    if s.linked.isEmpty && cs.isEmpty then ok (s, [])
    else ok ({ s with linked := cs }, if s.hub then [.ext] else [])
  | .nop => ok (s, [])

/-- The mutation API before the repairs F20–F23 (only used by the witnesses of the old behaviour in
`Props/C17.lean`): `remove_component` accepted pixel / world ids, `add_component` replaced a component
under an id in use without announcing anything, `update_id` onto an id in use merged the two keys of
the `OrderedDict`, a dataset of 0-d arrays accepted an array of any shape. -/
def stepUnrepairedCore (s : State) : Op → Out
  | .addArray l shape val =>
    if !canAddUnrepaired s shape then fail s .value else
    let (s0, c) := fresh s l
    ok (addMain s0 c shape val)
  | .addArrayAt c shape val =>
    if !canAddUnrepaired s shape then fail s .value else
    ok ((if s.comps.isEmpty then createPixelWorld s shape.length else (s, [])).bind fun s1 =>
      addRawSilent s1 ⟨c, .main, shape, val⟩)
  | .remove c => ok (removeComp s c)
  | .updateId old new => ok (updateIdImpl s old new)
  | op => stepCore s op

/-- Every identifier a call mentions. -/
def Op.ids : Op → List Cid
  | .addArrayAt c _ _ => [c]
  | .addDerived _ _ deps => deps
  | .remove c => [c]
  | .reorder cs => cs
  | .updateId o n => [o, n]
  | .updateComponents m => m.map (·.1)
  | .rename c _ => [c]
  | .setLinked cs => cs
  | _ => []

/-- One more than the largest identifier among `ids` (0 for none). -/
def idBound (ids : List Cid) : Nat := ids.foldl (fun b c => max b (c + 1)) 0

/-- A call may mention ComponentID objects the model has not seen yet (`≥ next`): the caller made them
(`ComponentID(label)`, no parent, not used anywhere; their label reads as code 0 until it is set).
They are accounted for before the call runs, so that identities handed out later are different
objects. Nothing observable changes. -/
def alloc (s : State) (op : Op) : State := { s with next := max s.next (idBound op.ids) }

/-- One call of the mutation API, with arbitrary arguments. -/
def step (s : State) (op : Op) : Out := stepCore (alloc s op) op

def stepUnrepaired (s : State) (op : Op) : Out := stepUnrepairedCore (alloc s op) op

/-- A fresh `Data()` together with `npool` free-standing `ComponentID`s labelled `poolLabels`. -/
def init (poolLabels : List Label) : State :=
  { labels := (List.range poolLabels.length).zip poolLabels, next := poolLabels.length }

/-! ## observation -/

structure OComp where
  cid : Cid
  label : Label
  kind : Kind
  shape : Shape
  val : Nat
  deriving DecidableEq, Repr, Inhabited

/-- What the harness reads off the real object after every call. -/
structure Obs where
  comps : List OComp
  shape : Shape
  pix : List Cid
  world : List Cid
  coords : Option Nat                  -- identity of the coordinates object (harness token)
  nlinks : Nat
  dlabel : Label
  hub : Bool
  inDc : Bool
  linked : List (Cid × Label)
  finds : List (Label × Option Cid)    -- `find_component_id(l)` for every `l` of the probe list
  deriving DecidableEq, Repr, Inhabited

def obs (probe : List Label) (s : State) : Obs :=
  { comps := s.comps.map fun c =>
      ⟨c.cid, s.label c.cid, c.kind, compShape s.shape c, if c.kind.isMain then c.val else 0⟩,
    shape := s.shape, pix := s.pix, world := s.world, coords := s.coords,
    nlinks := s.nlinks, dlabel := s.dlabel, hub := s.hub, inDc := s.inDc,
    linked := s.linked.map fun c => (c, s.label c),
    finds := probe.map fun l => (l, findImpl s l) }

/-! ## Spec -/

def ocids (o : Obs) : List Cid := o.comps.map (·.cid)

/-- Number of components in `tier` carrying label `l`. -/
def countLabel (tier : List (Cid × Label)) (l : Label) : Nat := (tier.filter (·.2 == l)).length

def tiersOf (o : Obs) : List (List (Cid × Label)) :=
  [ (o.comps.filter (·.kind.isMain)).map (fun c => (c.cid, c.label)),
    (o.comps.filter (·.kind.isDerived)).map (fun c => (c.cid, c.label)),
    (o.comps.filter (·.kind.isCoord)).map (fun c => (c.cid, c.label)),
    o.linked ]

/-- Declarative lookup-by-name: `r` is acceptable for label `l` iff, in the first tier
(main, derived, coordinate, linked) that contains the label at all, `r` is that component when it
is the only one, and nothing when there are several; nothing when no tier contains it. -/
def findOk (tiers : List (List (Cid × Label))) (l : Label) (r : Option Cid) : Bool :=
  match tiers with
  | [] => r == none
  | t :: ts =>
    if countLabel t l == 0 then findOk ts l r
    else if countLabel t l == 1 then
      match r with
      | some c => t.contains (c, l)
      | none => false
    else r == none

/-- Exactly one `kind`-coordinate attribute per dimension: `ids` has one entry per dimension, entry
`i` is a component of kind `mk i`, and every component of that family is the listed one. -/
def coordFamilyOk (o : Obs) (ids : List Cid) (mk : Nat → Kind) (axisOf : Kind → Option Nat) : Bool :=
  ids.length == o.shape.length
  && (List.range ids.length).all (fun i =>
        o.comps.any (fun c => some c.cid == ids[i]? && c.kind == mk i))
  && o.comps.all (fun c =>
        match axisOf c.kind with
        | some a => ids[a]? == some c.cid
        | none => true)

def pixelAxis : Kind → Option Nat
  | .pixel a => some a
  | _ => none

def worldAxis : Kind → Option Nat
  | .world a => some a
  | _ => none

/-- The structural invariant of C17 on one observation. -/
def specInv (o : Obs) : Bool :=
  -- component identifiers are unique
  decide (ocids o).Nodup
  -- all components have the dataset's shape
  && o.comps.all (fun c => c.shape == o.shape)
  -- exactly one pixel attribute per dimension
  && coordFamilyOk o o.pix .pixel pixelAxis
  -- one world attribute per dimension iff coordinates are set
  && (if o.coords.isSome then coordFamilyOk o o.world .world worldAxis
      else o.world.isEmpty && o.comps.all (fun c => (worldAxis c.kind).isNone))
  -- pixel ↔ world links: two per dimension iff coordinates are set
  && o.nlinks == (if o.coords.isSome then 2 * o.shape.length else 0)
  -- lookup by name returns the unique match (with the documented precedence) or nothing
  && o.finds.all (fun p => findOk (tiersOf o) p.1 p.2)

/-- Replay the structural announcements on the list of component ids: every announcement must be
applicable (announce only what happens): an added id is new and goes to the end, a removed id is
present, `ComponentReplaced(o, n)` puts the new id `n` at the place of the present id `o`, a
reorder is a genuine permutation different from the current order; `DataAddComponent` /
`DataRemoveComponent` are each directly followed by their `ComponentsChanged`, which never occurs
on its own. Other messages do not concern the identifier list. -/
def replay : List Msg → List Cid → Option (List Cid)
  | [], cur => some cur
  | .add c :: .changed :: ms, cur => if cur.contains c then none else replay ms (cur ++ [c])
  | .remove c :: .changed :: ms, cur => if cur.contains c then replay ms (cur.erase c) else none
  | .replaced o n :: ms, cur =>
    if !cur.contains o || cur.contains n then none
    else replay ms (cur.map fun x => if x == o then n else x)
  | .reorder cs :: ms, cur =>
    if cs == cur || !(cs.all cur.contains && cur.all cs.contains && cs.length == cur.length)
    then none else replay ms cs
  | .add _ :: _, _ => none
  | .remove _ :: _, _ => none
  | .changed :: _, _ => none
  | .rename _ :: ms, cur => replay ms cur
  | .update :: ms, cur => replay ms cur
  | .numerical _ :: ms, cur => replay ms cur
  | .ext :: ms, cur => replay ms cur

def lookupComp (o : Obs) (c : Cid) : Option OComp := o.comps.find? (·.cid == c)

def Op.isValueUpdate : Op → Bool
  | .updateComponents _ => true
  | .updateFrom _ => true
  | _ => false

def Op.isLinkOp : Op → Bool
  | .setLinked _ => true
  | .attach => true
  | _ => false

def Op.isHubOp : Op → Bool
  | .attach => true
  | .register => true
  | _ => false

/-- Who may send `NumericalDataChanged`: the two value-updating calls, and `add_component` onto an
identifier that already is a component (the stored component is replaced) — then the message names
exactly that identifier. -/
def numericalOk (pre : List Cid) (op : Op) (m : Msg) : Bool :=
  match m with
  | .numerical cs =>
    op.isValueUpdate ||
    (match op with
     | .addArrayAt c _ _ => pre.contains c && cs == some [c]
     | _ => false)
  | _ => true

def numericalCovers (msgs : List Msg) (c : Cid) : Bool :=
  msgs.any fun m =>
    match m with
    | .numerical none => true
    | .numerical (some cs) => cs.contains c
    | _ => false

/-- The surviving identifiers keep their relative order, unless the call is a reorder (then the
new order is the requested one, or nothing changed) or an `update_id` (then `new` stands exactly
where `old` stood). -/
def orderOk (op : Op) (pre post : List Cid) : Bool :=
  match op with
  | .reorder cs => (post == cs) || (post == pre)
  | .updateId old new => (post == pre.map fun x => if x == old then new else x) || new == old
  | _ => post.filter pre.contains == pre.filter post.contains

/-- A surviving identifier's label changed iff `DataRenameComponent` announced it (with a hub); a
new identifier is not announced as renamed. -/
def labelsOk (hub : Bool) (pre post : Obs) (msgs : List Msg) : Bool :=
  post.comps.all fun c =>
    match lookupComp pre c.cid with
    | some c0 => !hub || ((c0.label != c.label) == msgs.contains (.rename c.cid))
    | none => !msgs.contains (.rename c.cid)

def Msg.applyTo (m : Msg) (k : Kind) : Kind :=
  match m with
  | .replaced o n => k.replaceDep o n
  | _ => k

/-- The class of a component after the announced `ComponentReplaced(o, n)`: a derived component that
read `o` now reads `n` (nothing else about a component's class follows from a message). -/
def kindAfter (msgs : List Msg) (k : Kind) : Kind :=
  msgs.foldl (fun k m => m.applyTo k) k

/-- A surviving component whose class / shape / values changed is covered by a
`NumericalDataChanged` (with a hub); the inputs of a derived component follow the announced
replacements of identifiers and change in no other way. -/
def valuesOk (hub : Bool) (pre post : Obs) (msgs : List Msg) : Bool :=
  post.comps.all fun c =>
    match lookupComp pre c.cid with
    | some c0 =>
      !hub || (kindAfter msgs c0.kind == c.kind && c0.shape == c.shape && c0.val == c.val)
        || numericalCovers msgs c.cid
    | none => true

/-- One call, judged on what was observed before and after it, the messages a catch-all listener
received, and whether the call raised:
* a failed call changed nothing and announced nothing;
* without a hub nothing is announced; the surviving identifiers keep their relative order unless the
  call is a (successful) reorder, which yields exactly the requested order;
* with a hub, replaying the add / remove / replace / reorder announcements on the old identifier
  list gives exactly the new list (so every structural change is announced, nothing is announced
  that did not happen, and the order only changes through an announced reorder);
* a component identifier's label changed iff it was announced (`DataRenameComponent`), the dataset
  label changed iff `DataUpdate` was sent;
* a surviving component whose kind / shape / values changed is covered by a
  `NumericalDataChanged`; that message is only sent by the two value-updating calls and by
  `add_component` replacing the component of an identifier in use (`numericalOk`);
* `ExternallyDerivableComponentsChanged` only accompanies a change of the linked set. -/
def specStep (pre : Obs) (op : Op) (post : Obs) (msgs : List Msg) (err : Option Err) : Bool :=
  if err.isSome then post == pre && msgs.isEmpty
  else
    let hub := post.hub
    -- hub membership only changes through attach / register
    (post.hub == pre.hub || op.isHubOp)
    && (hub || msgs.isEmpty)
    -- identifiers and their order
    && (!hub || replay msgs (ocids pre) == some (ocids post))
    && orderOk op (ocids pre) (ocids post)
    -- labels of surviving identifiers
    && labelsOk hub pre post msgs
    && msgs.all (fun m => match m with
        | .rename c => (ocids post).contains c
        | _ => true)
    -- dataset label
    && (!hub || ((pre.dlabel != post.dlabel) == msgs.contains .update))
    -- values
    && valuesOk hub pre post msgs
    && msgs.all (numericalOk (ocids pre) op)
    -- linked set
    && (!hub || post.inDc || !msgs.contains .ext || pre.linked.map (·.1) != post.linked.map (·.1) || op.isLinkOp)
    && (!hub || post.inDc || pre.linked.map (·.1) == post.linked.map (·.1) || msgs.contains .ext)

/-- One observed step of a history. -/
structure Step where
  op : Op
  post : Obs
  msgs : List Msg
  err : Option Err
  deriving Repr, Inhabited

/-- The property on a whole observed history. -/
def specTrace (o0 : Obs) : List Step → Bool
  | [] => specInv o0
  | st :: rest => specInv o0 && specStep o0 st.op st.post st.msgs st.err && specTrace st.post rest

/-! ## the state invariant (the `Prop` the inductive proofs carry; it implies `specInv` of every
observation of the state) -/

/-- One coordinate family (`mk = Kind.pixel` or `Kind.world`): one listed id per dimension, the
`i`-th listed id is a stored component of kind `mk i`, and every stored component of that family is
the listed one of its axis. -/
def FamOk (comps : List Comp) (ids : List Cid) (mk : Nat → Kind) (ndim : Nat) : Prop :=
  ids.length = ndim ∧
  (∀ i, (h : i < ids.length) → ∃ c ∈ comps, c.cid = ids[i] ∧ c.kind = mk i) ∧
  (∀ c ∈ comps, ∀ a, c.kind = mk a → ids[a]? = some c.cid)

/-- The invariant, with the shape every stored array must have as a parameter (`Inv` instantiates it
with the dataset's own shape; `update_values_from_data` passes through states whose arrays still
have the previous shape). -/
structure InvG (sh : Shape) (s : State) : Prop where
  /-- component identifiers are unique -/
  nodup : (cids s.comps).Nodup
  /-- every stored array has the shape `sh` -/
  shapes : ∀ c ∈ s.comps, c.kind = .main → c.shape = sh
  /-- exactly one pixel attribute per dimension -/
  pixel : FamOk s.comps s.pix .pixel s.shape.length
  /-- one world attribute per dimension iff coordinates are set -/
  world : if s.coords.isSome then FamOk s.comps s.world .world s.shape.length
          else s.world = [] ∧ ∀ c ∈ s.comps, ∀ a, c.kind ≠ .world a
  /-- two pixel↔world links per dimension iff coordinates are set -/
  links : s.nlinks = if s.coords.isSome then 2 * s.shape.length else 0
  /-- identities in use were created before `next` -/
  fresh : (∀ c ∈ cids s.comps, c < s.next) ∧ (∀ c ∈ s.linked, c < s.next)

/-- The state invariant of C17: unique identifiers, every array has the dataset's shape, one pixel
attribute per dimension, one world attribute per dimension iff coordinates are set, two links per
dimension iff coordinates are set. -/
abbrev Inv (s : State) : Prop := InvG s.shape s

/-! ## the part of the API on which the model follows the code -/

/-- Why the model does not claim to follow the code on a call (`ok` = it does). The theorems hold for
every call; this classification only says where the correspondence with `glue` is claimed (the
driver's `p`). The one construct left is not a defect but a part of glue this model leaves out: inside
a `DataCollection` the link manager owns `_externally_derivable_components` and overwrites it at
every synchronisation (C03's subject), so setting it by hand there is not followed. -/
inductive Construct where
  | ok
  | linkedInCollection   -- `_set_externally_derivable_components` by hand while the link manager owns it
  deriving DecidableEq, Repr, Inhabited

def Construct.name : Construct → String
  | .ok => "ok"
  | .linkedInCollection => "linked-in-collection"

def classify (s : State) : Op → Construct
  | .setLinked _ => if s.inDc then .linkedInCollection else .ok
  | _ => .ok

/-! ## histories -/

/-- State after a history of calls. -/
def run (s : State) : List Op → State
  | [] => s
  | op :: ops => run (step s op).state ops

/-- On every call of the history the model claims to follow the code (classified at the state the
call is issued in). -/
def allOk (s : State) : List Op → Bool
  | [] => true
  | op :: ops => classify s op == .ok && allOk (step s op).state ops

/-- What the harness records along a history. -/
def trace (probe : List Label) (s : State) : List Op → List Step
  | [] => []
  | op :: ops =>
    let out := step s op
    ⟨op, obs probe out.state, out.msgs, out.err⟩ :: trace probe out.state ops

end GlueVerif.DataStruct
