import GlueVerif.Model.C02Serial
/-!
C02 — the per-class `__gluestate__` / `__setgluestate__` pairs (and the registered `@saver`/`@loader`
pairs) of the classes whose pair is a *pure field record*, transcribed function by function
(core Lean only; executable: the driver runs `encode` / `decode` against the real code in the `rec`
family).

A saver is a function from the object's fields to a python `dict`; a loader a function from that
`dict` back to the constructor arguments.  Both talk to the serializer only through `context.id`,
`context.do` and `context.object`, which are modelled *symbolically* on objects (`name o` = "the name
under which object `o` is registered", `inl o` = "the nested record of object `o`"): that names are
unique, that a name resolves to the restored object and that an inlined record is rebuilt is the
subject of the framework theorems (`roundtrip_framework*`), not of a class's pair.  On strings and
literals the three functions are transcribed exactly (`st__` prefix, pass-through).

Literal payloads (numbers, `None`, booleans, nested lists/tuples of those, and values a class writes
into its record *as is*, e.g. `categories.tolist()`) are opaque `Int`s: the harness interns them
(`0` is python `0`, `1` is `None`); that `json` passes them through is the trusted codec.
-/
namespace GlueVerif.C02.Cls
open GlueVerif.C02

abbrev Lit := Int
def litZero : Lit := 0   -- python `0` (default of `rec.get('theta', 0)`)
def litNone : Lit := 1   -- python `None`

/-- a python value held in a field of an object -/
inductive PV where
  | lit (n : Lit)     -- number / None / bool / (nested) list or tuple of those
  | str (s : Str)     -- a python `str`
  | obj (o : Nat)     -- any other object (identity `o`): ComponentID, Data, Roi, ndarray, function, list of objects …
  deriving DecidableEq, Repr, Inhabited

/-- a value in the `dict` a saver returns -/
inductive JV where
  | lit (n : Lit)          -- literal, passed through by `id` / `do` / `json`
  | str (s : Str)          -- a string exactly as written (`st__…` when it went through `id`/`do`, raw otherwise)
  | name (o : Nat)         -- `context.id(obj)`: the name of object `o`
  | inl (o : Nat)          -- `context.do(obj)`: the nested record of object `o`
  | list (xs : List JV)    -- a python list built by the saver itself
  deriving Repr, Inhabited

abbrev Rec := List (String × JV)

/-- `rec[k]` (`none` = KeyError) -/
def Rec.get? (r : Rec) (k : String) : Option JV := r.lookup k
/-- `rec.get(k, d)` / `rec[k] if k in rec else d` -/
def Rec.getD (r : Rec) (k : String) (d : JV) : JV := (r.lookup k).getD d

/-! ### the context -/

/-- `GlueSerializer.id` -/
def cId : PV → JV
  | .lit n => .lit n
  | .str s => .str (stPrefix ++ s)
  | .obj o => .name o

/-- `GlueSerializer.do` -/
def cDo : PV → JV
  | .lit n => .lit n
  | .str s => .str (stPrefix ++ s)
  | .obj o => .inl o

/-- `GlueUnSerializer.object` on a value found in a record.  A string without the `st__` prefix is a
*real* name: none of the savers below writes one (names are symbolic here), so it is an error, as is
a raw list (python returns it un-resolved; no loader below relies on that). -/
def cObject : JV → Option PV
  | .lit n => some (.lit n)
  | .str s => if isLiteralStr s then some (.str (s.drop 4)) else none
  | .name o => some (.obj o)
  | .inl o => some (.obj o)
  | .list _ => none

/-- a value read from the record and used *as is* where a literal is expected (`rec['xc']`) -/
def rawLit : JV → Option Lit
  | .lit n => some n
  | _ => none

def asLit : PV → Option Lit
  | .lit n => some n
  | _ => none

def asObj : PV → Option Nat
  | .obj o => some o
  | _ => none

/-- `[context.object(x) for x in rec[k]]` -/
def objectsOf : JV → Option (List PV)
  | .list xs => xs.mapM cObject
  | _ => none

/-! ### ROIs (`glue/core/roi.py`) -/

structure RectF where
  xmin : Lit
  xmax : Lit
  ymin : Lit
  ymax : Lit
  theta : Lit
  deriving DecidableEq, Repr

/-- `RectangularROI.__gluestate__` -/
def RectangularROI.encode (x : RectF) : Rec :=
  [("xmin", cDo (.lit x.xmin)), ("xmax", cDo (.lit x.xmax)), ("ymin", cDo (.lit x.ymin)),
   ("ymax", cDo (.lit x.ymax)), ("theta", cDo (.lit x.theta))]

/-- `RectangularROI.__setgluestate__`: every value through `context.object`, `theta` defaults to `0` -/
def RectangularROI.decode (r : Rec) : Option RectF := do
  let xmin ← asLit (← cObject (← r.get? "xmin"))
  let xmax ← asLit (← cObject (← r.get? "xmax"))
  let ymin ← asLit (← cObject (← r.get? "ymin"))
  let ymax ← asLit (← cObject (← r.get? "ymax"))
  let theta ← asLit (← cObject (r.getD "theta" (.lit litZero)))
  pure ⟨xmin, xmax, ymin, ymax, theta⟩

inductive Ori where
  | x | y
  deriving DecidableEq, Repr

def Ori.sym : Ori → Str
  | .x => ['x']
  | .y => ['y']

/-- `RangeROI.__init__` accepts only `'x'` / `'y'` -/
def Ori.ofSym (s : Str) : Option Ori :=
  if s = ['x'] then some .x else if s = ['y'] then some .y else none

structure RangeF where
  ori : Ori
  min : Lit
  max : Lit
  deriving DecidableEq, Repr

/-- `RangeROI.__gluestate__` (inherited by `XRangeROI` / `YRangeROI`): `ori` raw, bounds through `do` -/
def RangeROI.encode (x : RangeF) : Rec :=
  [("ori", .str x.ori.sym), ("min", cDo (.lit x.min)), ("max", cDo (.lit x.max))]

/-- `RangeROI.__setgluestate__` for `cls is RangeROI`: `cls(rec['ori'], min=rec['min'], max=rec['max'])` -/
def RangeROI.decode (r : Rec) : Option RangeF := do
  let ori ← match ← r.get? "ori" with
    | .str s => Ori.ofSym s
    | _ => none
  let mn ← rawLit (← r.get? "min")
  let mx ← rawLit (← r.get? "max")
  pure ⟨ori, mn, mx⟩

structure XYRangeF where
  min : Lit
  max : Lit
  deriving DecidableEq, Repr

/-- the same saver on an `XRangeROI` (`self.ori == 'x'`) / `YRangeROI` -/
def XYRangeROI.encode (o : Ori) (x : XYRangeF) : Rec := RangeROI.encode ⟨o, x.min, x.max⟩

/-- `RangeROI.__setgluestate__` for `cls is XRangeROI or cls is YRangeROI`: `cls(min=rec['min'], max=rec['max'])` -/
def XYRangeROI.decode (r : Rec) : Option XYRangeF := do
  let mn ← rawLit (← r.get? "min")
  let mx ← rawLit (← r.get? "max")
  pure ⟨mn, mx⟩

structure CircF where
  xc : Lit
  yc : Lit
  radius : Lit
  deriving DecidableEq, Repr

def CircularROI.encode (x : CircF) : Rec :=
  [("xc", cDo (.lit x.xc)), ("yc", cDo (.lit x.yc)), ("radius", cDo (.lit x.radius))]

/-- `cls(xc=rec['xc'], yc=rec['yc'], radius=rec['radius'])` -/
def CircularROI.decode (r : Rec) : Option CircF := do
  let xc ← rawLit (← r.get? "xc")
  let yc ← rawLit (← r.get? "yc")
  let radius ← rawLit (← r.get? "radius")
  pure ⟨xc, yc, radius⟩

structure AnnulusF where
  xc : Lit
  yc : Lit
  inner : Lit
  outer : Lit
  deriving DecidableEq, Repr

def CircularAnnulusROI.encode (x : AnnulusF) : Rec :=
  [("xc", cDo (.lit x.xc)), ("yc", cDo (.lit x.yc)), ("inner_radius", cDo (.lit x.inner)),
   ("outer_radius", cDo (.lit x.outer))]

def CircularAnnulusROI.decode (r : Rec) : Option AnnulusF := do
  let xc ← rawLit (← r.get? "xc")
  let yc ← rawLit (← r.get? "yc")
  let i ← rawLit (← r.get? "inner_radius")
  let o ← rawLit (← r.get? "outer_radius")
  pure ⟨xc, yc, i, o⟩

structure EllipseF where
  xc : Lit
  yc : Lit
  rx : Lit
  ry : Lit
  theta : Lit
  deriving DecidableEq, Repr

def EllipticalROI.encode (x : EllipseF) : Rec :=
  [("xc", cDo (.lit x.xc)), ("yc", cDo (.lit x.yc)), ("radius_x", cDo (.lit x.rx)),
   ("radius_y", cDo (.lit x.ry)), ("theta", cDo (.lit x.theta))]

/-- raw reads, `theta=rec.get('theta', 0)` -/
def EllipticalROI.decode (r : Rec) : Option EllipseF := do
  let xc ← rawLit (← r.get? "xc")
  let yc ← rawLit (← r.get? "yc")
  let rx ← rawLit (← r.get? "radius_x")
  let ry ← rawLit (← r.get? "radius_y")
  let theta ← rawLit (r.getD "theta" (.lit litZero))
  pure ⟨xc, yc, rx, ry, theta⟩

/-- `VertexROIBase` (PolygonalROI, Path): the vertex arrays are objects (`np.asarray(self.vx)`) saved with `do` -/
structure VertexF where
  vx : Nat
  vy : Nat
  deriving DecidableEq, Repr

def VertexROI.encode (x : VertexF) : Rec := [("vx", cDo (.obj x.vx)), ("vy", cDo (.obj x.vy))]

def VertexROI.decode (r : Rec) : Option VertexF := do
  let vx ← asObj (← cObject (← r.get? "vx"))
  let vy ← asObj (← cObject (← r.get? "vy"))
  pure ⟨vx, vy⟩

/-- `CategoricalROI`: `categories.tolist()` written and read as is -/
structure CatRoiF where
  categories : Lit
  deriving DecidableEq, Repr

def CategoricalROI.encode (x : CatRoiF) : Rec := [("categories", .lit x.categories)]

def CategoricalROI.decode (r : Rec) : Option CatRoiF := do
  let c ← rawLit (← r.get? "categories")
  pure ⟨c⟩

/-- `Projected3dROI`: the 2-d ROI by name, the matrix `tolist()` / `np.asarray` -/
structure Proj3dF where
  roi2d : PV
  matrix : Lit
  deriving DecidableEq, Repr

def Projected3dROI.encode (x : Proj3dF) : Rec :=
  [("roi_2d", cId x.roi2d), ("projection_matrix", .lit x.matrix)]

def Projected3dROI.decode (r : Rec) : Option Proj3dF := do
  let roi ← cObject (← r.get? "roi_2d")
  let m ← rawLit (← r.get? "projection_matrix")
  pure ⟨roi, m⟩

/-! ### subset states (`glue/core/subset.py`, registered pairs in `glue/core/state.py`) -/

/-- `RangeSubsetState` (`_save_range_subset_state`): bounds may be numbers or objects (`np.datetime64`) -/
structure RangeStF where
  lo : PV
  hi : PV
  att : PV
  deriving DecidableEq, Repr

def RangeSubsetState.encode (x : RangeStF) : Rec := [("lo", cId x.lo), ("hi", cId x.hi), ("att", cId x.att)]

def RangeSubsetState.decode (r : Rec) : Option RangeStF := do
  let lo ← cObject (← r.get? "lo")
  let hi ← cObject (← r.get? "hi")
  let att ← cObject (← r.get? "att")
  pure ⟨lo, hi, att⟩

structure MultiRangeF where
  pairs : List (PV × PV)
  att : PV
  deriving DecidableEq, Repr

/-- `pairs=[[context.do(lo), context.do(hi)] for lo, hi in self.pairs], att=context.id(self.att)` -/
def MultiRangeSubsetState.encode (x : MultiRangeF) : Rec :=
  [("pairs", .list (x.pairs.map fun p => .list [cDo p.1, cDo p.2])), ("att", cId x.att)]

def pairOf : JV → Option (PV × PV)
  | .list [a, b] => do pure (← cObject a, ← cObject b)
  | _ => none

def MultiRangeSubsetState.decode (r : Rec) : Option MultiRangeF := do
  let pairs ← match ← r.get? "pairs" with
    | .list xs => xs.mapM pairOf
    | _ => none
  let att ← cObject (← r.get? "att")
  pure ⟨pairs, att⟩

/-- the operators of `OPSYM` / `SYMOP` (`glue/core/subset.py`) -/
inductive Op where
  | ge | gt | le | lt | and_ | or_ | xor | eq | ne
  deriving DecidableEq, Repr

/-- `OPSYM` -/
def Op.sym : Op → Str
  | .ge => ['>', '='] | .gt => ['>'] | .le => ['<', '='] | .lt => ['<']
  | .and_ => ['&'] | .or_ => ['|'] | .xor => ['^'] | .eq => ['=', '='] | .ne => ['!', '=']

/-- `SYMOP = dict((v, k) for k, v in OPSYM.items())` -/
def Op.ofSym (s : Str) : Option Op :=
  [Op.ge, .gt, .le, .lt, .and_, .or_, .xor, .eq, .ne].find? fun o => o.sym == s

/-- `VALID_INEQUALTIY_OPS`: what `InequalitySubsetState.__init__` accepts -/
def Op.validIneq : Op → Bool
  | .gt | .ge | .lt | .le | .eq | .ne => true
  | _ => false

structure IneqF where
  left : PV
  right : PV
  op : Op
  deriving DecidableEq, Repr

/-- `_save_inequality_subset_state` -/
def InequalitySubsetState.encode (x : IneqF) : Rec :=
  [("left", cId x.left), ("right", cId x.right), ("op", .str x.op.sym)]

/-- `_load_inequality_subset_state`: `SYMOP[rec['op']]`, then the constructor's check -/
def InequalitySubsetState.decode (r : Rec) : Option IneqF := do
  let left ← cObject (← r.get? "left")
  let right ← cObject (← r.get? "right")
  let op ← match ← r.get? "op" with
    | .str s => Op.ofSym s
    | _ => none
  if op.validIneq then pure ⟨left, right, op⟩ else none

structure CategoryF where
  att : PV
  vals : PV
  deriving DecidableEq, Repr

def CategorySubsetState.encode (x : CategoryF) : Rec := [("att", cId x.att), ("vals", cDo x.vals)]

def CategorySubsetState.decode (r : Rec) : Option CategoryF := do
  let att ← cObject (← r.get? "att")
  let vals ← cObject (← r.get? "vals")
  pure ⟨att, vals⟩

structure ElementF where
  indices : PV
  /-- `_data_uuid`: a string or `None`, written and read as is -/
  uuid : Option Str
  deriving DecidableEq, Repr

def ElementSubsetState.encode (x : ElementF) : Rec :=
  [("indices", cDo x.indices),
   ("data_uuid", match x.uuid with | none => .lit litNone | some s => .str s)]

/-- `state = cls(indices=context.object(rec['indices']))`; `state._data_uuid = rec['data_uuid']` unless the
key is missing (BACKCOMPAT: stays `None`) -/
def ElementSubsetState.decode (r : Rec) : Option ElementF := do
  let ind ← cObject (← r.get? "indices")
  let uuid ← match r.get? "data_uuid" with
    | none => some none
    | some (.str s) => some (some s)
    | some (.lit n) => if n = litNone then some none else none
    | some _ => none
  pure ⟨ind, uuid⟩

structure SliceF where
  slices : PV
  refData : PV
  deriving DecidableEq, Repr

def SliceSubsetState.encode (x : SliceF) : Rec :=
  [("slices", cDo x.slices), ("reference_data", cId x.refData)]

/-- `cls(rec['reference_data'], context.object(rec['slices']))` followed by
`__setgluestate_callback__`: `self.reference_data = context.object(self.reference_data)` -/
def SliceSubsetState.decode (r : Rec) : Option SliceF := do
  let held ← r.get? "reference_data"           -- the loader keeps the raw value …
  let slices ← cObject (← r.get? "slices")
  let refData ← cObject held                    -- … and the callback resolves it
  pure ⟨slices, refData⟩

structure MaskF where
  cids : List PV
  mask : PV
  deriving DecidableEq, Repr

def MaskSubsetState.encode (x : MaskF) : Rec :=
  [("cids", .list (x.cids.map cId)), ("mask", cDo x.mask)]

def MaskSubsetState.decode (r : Rec) : Option MaskF := do
  let mask ← cObject (← r.get? "mask")
  let cids ← objectsOf (← r.get? "cids")
  pure ⟨cids, mask⟩

structure RoiStF where
  xatt : PV
  yatt : PV
  roi : PV
  pretransform : PV
  deriving DecidableEq, Repr

/-- `_save_roi_subset_state` -/
def RoiSubsetState.encode (x : RoiStF) : Rec :=
  [("xatt", cId x.xatt), ("yatt", cId x.yatt), ("roi", cId x.roi), ("pretransform", cId x.pretransform)]

/-- `_load_roi_subset_state`: `rec['pretransform'] if 'pretransform' in rec else None` -/
def RoiSubsetState.decode (r : Rec) : Option RoiStF := do
  let xatt ← cObject (← r.get? "xatt")
  let yatt ← cObject (← r.get? "yatt")
  let roi ← cObject (← r.get? "roi")
  let pre ← cObject (r.getD "pretransform" (.lit litNone))
  pure ⟨xatt, yatt, roi, pre⟩

structure RoiNdF where
  atts : List PV
  roi : PV
  pretransform : PV
  deriving DecidableEq, Repr

/-- `_save_roi_subset_state_nd` -/
def RoiSubsetStateNd.encode (x : RoiNdF) : Rec :=
  [("atts", .list (x.atts.map cId)), ("roi", cId x.roi), ("pretransform", cId x.pretransform)]

def RoiSubsetStateNd.decode (r : Rec) : Option RoiNdF := do
  let atts ← objectsOf (← r.get? "atts")
  let roi ← cObject (← r.get? "roi")
  let pre ← cObject (← r.get? "pretransform")
  pure ⟨atts, roi, pre⟩

structure Roi3dF where
  xatt : PV
  yatt : PV
  zatt : PV
  roi : PV
  pretransform : PV
  deriving DecidableEq, Repr

def RoiSubsetState3d.encode (x : Roi3dF) : Rec :=
  [("xatt", cId x.xatt), ("yatt", cId x.yatt), ("zatt", cId x.zatt), ("roi", cId x.roi),
   ("pretransform", cId x.pretransform)]

def RoiSubsetState3d.decode (r : Rec) : Option Roi3dF := do
  let pretrans := r.getD "pretransform" (.lit litNone)
  let xatt ← cObject (← r.get? "xatt")
  let yatt ← cObject (← r.get? "yatt")
  let zatt ← cObject (← r.get? "zatt")
  let roi ← cObject (← r.get? "roi")
  let pre ← cObject pretrans
  pure ⟨xatt, yatt, zatt, roi, pre⟩

structure CatRoiStF where
  att : PV
  roi : PV
  deriving DecidableEq, Repr

def CategoricalROISubsetState.encode (x : CatRoiStF) : Rec := [("att", cId x.att), ("roi", cId x.roi)]

def CategoricalROISubsetState.decode (r : Rec) : Option CatRoiStF := do
  let att ← cObject (← r.get? "att")
  let roi ← cObject (← r.get? "roi")
  pure ⟨att, roi⟩

structure CatRoi2dF where
  categories : Lit
  att1 : PV
  att2 : PV
  deriving DecidableEq, Repr

def CategoricalROISubsetState2D.encode (x : CatRoi2dF) : Rec :=
  [("categories", .lit x.categories), ("att1", cId x.att1), ("att2", cId x.att2)]

def CategoricalROISubsetState2D.decode (r : Rec) : Option CatRoi2dF := do
  let c ← rawLit (← r.get? "categories")
  let a1 ← cObject (← r.get? "att1")
  let a2 ← cObject (← r.get? "att2")
  pure ⟨c, a1, a2⟩

structure CatMultiRangeF where
  ranges : Lit
  catAtt : PV
  numAtt : PV
  deriving DecidableEq, Repr

def CategoricalMultiRangeSubsetState.encode (x : CatMultiRangeF) : Rec :=
  [("ranges", .lit x.ranges), ("cat_att", cId x.catAtt), ("num_att", cId x.numAtt)]

def CategoricalMultiRangeSubsetState.decode (r : Rec) : Option CatMultiRangeF := do
  let c ← rawLit (← r.get? "ranges")
  let a1 ← cObject (← r.get? "cat_att")
  let a2 ← cObject (← r.get? "num_att")
  pure ⟨c, a1, a2⟩

/-- the concrete `CompositeSubsetState` classes; the loader re-instantiates `lookup_class(rec['_type'])` -/
inductive CompKind where
  | and_ | or_ | xor | invert
  deriving DecidableEq, Repr

structure CompositeF where
  kind : CompKind
  state1 : PV
  /-- `None` for `InvertState` -/
  state2 : PV
  deriving DecidableEq, Repr

/-- `_save_composite_subset_state` (the same function for the four classes) -/
def CompositeSubsetState.encode (x : CompositeF) : Rec :=
  [("state1", cId x.state1), ("state2", cId x.state2)]

/-- `_load_composite_subset_state`: `cls = lookup_class(rec['_type'])`, `cls(state1, state2)` and — fix F5h —
`result.state1 = state1; result.state2 = state2` -/
def CompositeSubsetState.decode (cls : CompKind) (r : Rec) : Option CompositeF := do
  let s1 ← cObject (← r.get? "state1")
  let s2 ← cObject (← r.get? "state2")
  pure ⟨cls, s1, s2⟩

structure MultiOrF where
  states : List PV
  deriving DecidableEq, Repr

def MultiOrState.encode (x : MultiOrF) : Rec := [("states", .list (x.states.map cId))]

def MultiOrState.decode (r : Rec) : Option MultiOrF := do
  let ss ← objectsOf (← r.get? "states")
  pure ⟨ss⟩

structure FloodFillF where
  att : PV
  startCoords : Lit
  threshold : Lit
  deriving DecidableEq, Repr

/-- `attribute=context.id(self.att), start_coords=self.start_coords, threshold=self.threshold` -/
def FloodFillSubsetState.encode (x : FloodFillF) : Rec :=
  [("attribute", cId x.att), ("start_coords", .lit x.startCoords), ("threshold", .lit x.threshold)]

/-- all three through `context.object` -/
def FloodFillSubsetState.decode (r : Rec) : Option FloodFillF := do
  let att ← cObject (← r.get? "attribute")
  let sc ← asLit (← cObject (← r.get? "start_coords"))
  let th ← asLit (← cObject (← r.get? "threshold"))
  pure ⟨att, sc, th⟩

/-! ### coordinates (`glue/core/coordinates.py`) -/

structure AffineF where
  matrix : PV
  labels : Lit
  units : Lit
  deriving DecidableEq, Repr

/-- `matrix=context.do(self._matrix), labels=self._labels, units=self._units` -/
def AffineCoordinates.encode (x : AffineF) : Rec :=
  [("matrix", cDo x.matrix), ("labels", .lit x.labels), ("units", .lit x.units)]

/-- `cls(context.object(rec['matrix']), units=rec['units'], labels=rec['labels'])` -/
def AffineCoordinates.decode (r : Rec) : Option AffineF := do
  let m ← cObject (← r.get? "matrix")
  let u ← rawLit (← r.get? "units")
  let l ← rawLit (← r.get? "labels")
  pure ⟨m, l, u⟩

structure IdentityF where
  ndim : Lit
  deriving DecidableEq, Repr

/-- `IdentityCoordinates`: `{'ndim': self.pixel_n_dim}` / `cls(n_dim=rec['ndim'])` -/
def IdentityCoordinates.encode (x : IdentityF) : Rec := [("ndim", .lit x.ndim)]

def IdentityCoordinates.decode (r : Rec) : Option IdentityF := do
  let n ← rawLit (← r.get? "ndim")
  pure ⟨n⟩

/-! ### link helpers (`glue/core/link_helpers.py`) -/

structure LinkCollF where
  data1 : PV
  data2 : PV
  cids1 : PV
  cids2 : PV
  deriving DecidableEq, Repr

/-- `LinkCollection.__gluestate__` (the lists of component ids are objects saved by name) -/
def LinkCollection.encode (x : LinkCollF) : Rec :=
  [("data1", cId x.data1), ("data2", cId x.data2), ("cids1", cId x.cids1), ("cids2", cId x.cids2)]

/-- `LinkCollection.__setgluestate__`, the branch `'data1' in rec` (what this version writes) -/
def LinkCollection.decode (r : Rec) : Option LinkCollF := do
  let _ ← r.get? "data1"
  let d1 ← cObject (← r.get? "data1")
  let d2 ← cObject (← r.get? "data2")
  let c1 ← cObject (← r.get? "cids1")
  let c2 ← cObject (← r.get? "cids2")
  pure ⟨d1, d2, c1, c2⟩

structure MultiLinkF where
  coll : LinkCollF
  forwards : PV
  backwards : PV
  labels1 : Lit
  labels2 : Lit
  deriving DecidableEq, Repr

/-- `MultiLink.__gluestate__`: the collection's record + functions by name + `list(self.labels1)` as is -/
def MultiLink.encode (x : MultiLinkF) : Rec :=
  LinkCollection.encode x.coll ++
    [("forwards", cId x.forwards), ("backwards", cId x.backwards), ("labels1", .lit x.labels1), ("labels2", .lit x.labels2)]

/-- `MultiLink.__setgluestate__`: `labels1=rec.get('labels1')` -/
def MultiLink.decode (r : Rec) : Option MultiLinkF := do
  let c1 ← cObject (← r.get? "cids1")
  let c2 ← cObject (← r.get? "cids2")
  let f ← cObject (← r.get? "forwards")
  let b ← cObject (← r.get? "backwards")
  let l1 ← rawLit (r.getD "labels1" (.lit litNone))
  let l2 ← rawLit (r.getD "labels2" (.lit litNone))
  let d1 ← cObject (← r.get? "data1")
  let d2 ← cObject (← r.get? "data2")
  pure ⟨⟨d1, d2, c1, c2⟩, f, b, l1, l2⟩

structure CidPairF where
  cid1 : PV
  cid2 : PV
  deriving DecidableEq, Repr

/-- `LinkSame` / `LinkSameWithUnits` -/
def LinkSame.encode (x : CidPairF) : Rec := [("cid1", cId x.cid1), ("cid2", cId x.cid2)]

def LinkSame.decode (r : Rec) : Option CidPairF := do
  let a ← cObject (← r.get? "cid1")
  let b ← cObject (← r.get? "cid2")
  pure ⟨a, b⟩

structure TwoWayF where
  cid1 : PV
  cid2 : PV
  forwards : PV
  backwards : PV
  deriving DecidableEq, Repr

def LinkTwoWay.encode (x : TwoWayF) : Rec :=
  [("cid1", cId x.cid1), ("cid2", cId x.cid2), ("forwards", cId x.forwards), ("backwards", cId x.backwards)]

def LinkTwoWay.decode (r : Rec) : Option TwoWayF := do
  let a ← cObject (← r.get? "cid1")
  let b ← cObject (← r.get? "cid2")
  let f ← cObject (← r.get? "forwards")
  let g ← cObject (← r.get? "backwards")
  pure ⟨a, b, f, g⟩

structure DataPairF where
  data1 : PV
  data2 : PV
  deriving DecidableEq, Repr

def LinkAligned.encode (x : DataPairF) : Rec := [("data1", cId x.data1), ("data2", cId x.data2)]

def LinkAligned.decode (r : Rec) : Option DataPairF := do
  let a ← cObject (← r.get? "data1")
  let b ← cObject (← r.get? "data2")
  pure ⟨a, b⟩

structure PartialF where
  func : PV
  index : Lit
  deriving DecidableEq, Repr

/-- `PartialResult`: `func=context.do(self.func), index=self.index` -/
def PartialResult.encode (x : PartialF) : Rec := [("func", cDo x.func), ("index", .lit x.index)]

def PartialResult.decode (r : Rec) : Option PartialF := do
  let f ← cObject (← r.get? "func")
  let i ← rawLit (← r.get? "index")
  pure ⟨f, i⟩

/-! ### built-in containers that occur inlined below the classes above (`glue/core/state.py`) -/

structure SliceObjF where
  start : Lit
  stop : Lit
  step : Lit
  deriving DecidableEq, Repr

/-- `_save_slice` / `_load_slice`: raw both ways -/
def PySlice.encode (x : SliceObjF) : Rec := [("start", .lit x.start), ("stop", .lit x.stop), ("step", .lit x.step)]

def PySlice.decode (r : Rec) : Option SliceObjF := do
  let a ← rawLit (← r.get? "start")
  let b ← rawLit (← r.get? "stop")
  let c ← rawLit (← r.get? "step")
  pure ⟨a, b, c⟩

structure ContentsF where
  items : List PV
  deriving DecidableEq, Repr

/-- `_save_tuple`: `contents=[context.do(item) for item in state]`, loaded by `_load_list` -/
def PyTuple.encode (x : ContentsF) : Rec := [("contents", .list (x.items.map cDo))]

/-- `_save_list`: `contents=[context.id(item) for item in state]` -/
def PyList.encode (x : ContentsF) : Rec := [("contents", .list (x.items.map cId))]

/-- `_load_list` (also behind `_load_tuple`): `[context.object(item) for item in rec['contents']]` -/
def PyList.decode (r : Rec) : Option ContentsF := do
  let xs ← objectsOf (← r.get? "contents")
  pure ⟨xs⟩

/-! ### the table -/

/-- the classes of the table, by the `_type` that `GlueSerializer.do` writes -/
inductive Tag where
  | RectangularROI | RangeROI | XRangeROI | YRangeROI | CircularROI | CircularAnnulusROI | EllipticalROI
  | PolygonalROI | Path | CategoricalROI | Projected3dROI
  | SubsetState | RangeSubsetState | MultiRangeSubsetState | InequalitySubsetState | CategorySubsetState
  | ElementSubsetState | SliceSubsetState | MaskSubsetState | RoiSubsetState | RoiSubsetStateNd | RoiSubsetState3d
  | CategoricalROISubsetState | CategoricalROISubsetState2D | CategoricalMultiRangeSubsetState
  | AndState | OrState | XorState | InvertState | MultiOrState | FloodFillSubsetState
  | AffineCoordinates | IdentityCoordinates | Coordinates
  | LinkCollection | MultiLink | LinkSame | LinkSameWithUnits | LinkTwoWay | LinkAligned | PartialResult
  | slice | tuple | list
  deriving DecidableEq, Repr

def Tag.name : Tag → String
  | .RectangularROI => "glue.core.roi.RectangularROI" | .RangeROI => "glue.core.roi.RangeROI"
  | .XRangeROI => "glue.core.roi.XRangeROI" | .YRangeROI => "glue.core.roi.YRangeROI"
  | .CircularROI => "glue.core.roi.CircularROI" | .CircularAnnulusROI => "glue.core.roi.CircularAnnulusROI"
  | .EllipticalROI => "glue.core.roi.EllipticalROI" | .PolygonalROI => "glue.core.roi.PolygonalROI"
  | .Path => "glue.core.roi.Path" | .CategoricalROI => "glue.core.roi.CategoricalROI"
  | .Projected3dROI => "glue.core.roi.Projected3dROI"
  | .SubsetState => "glue.core.subset.SubsetState" | .RangeSubsetState => "glue.core.subset.RangeSubsetState"
  | .MultiRangeSubsetState => "glue.core.subset.MultiRangeSubsetState"
  | .InequalitySubsetState => "glue.core.subset.InequalitySubsetState"
  | .CategorySubsetState => "glue.core.subset.CategorySubsetState"
  | .ElementSubsetState => "glue.core.subset.ElementSubsetState"
  | .SliceSubsetState => "glue.core.subset.SliceSubsetState" | .MaskSubsetState => "glue.core.subset.MaskSubsetState"
  | .RoiSubsetState => "glue.core.subset.RoiSubsetState" | .RoiSubsetStateNd => "glue.core.subset.RoiSubsetStateNd"
  | .RoiSubsetState3d => "glue.core.subset.RoiSubsetState3d"
  | .CategoricalROISubsetState => "glue.core.subset.CategoricalROISubsetState"
  | .CategoricalROISubsetState2D => "glue.core.subset.CategoricalROISubsetState2D"
  | .CategoricalMultiRangeSubsetState => "glue.core.subset.CategoricalMultiRangeSubsetState"
  | .AndState => "glue.core.subset.AndState" | .OrState => "glue.core.subset.OrState"
  | .XorState => "glue.core.subset.XorState" | .InvertState => "glue.core.subset.InvertState"
  | .MultiOrState => "glue.core.subset.MultiOrState" | .FloodFillSubsetState => "glue.core.subset.FloodFillSubsetState"
  | .AffineCoordinates => "glue.core.coordinates.AffineCoordinates"
  | .IdentityCoordinates => "glue.core.coordinates.IdentityCoordinates"
  | .Coordinates => "glue.core.coordinates.Coordinates"
  | .LinkCollection => "glue.core.link_helpers.LinkCollection" | .MultiLink => "glue.core.link_helpers.MultiLink"
  | .LinkSame => "glue.core.link_helpers.LinkSame" | .LinkSameWithUnits => "glue.core.link_helpers.LinkSameWithUnits"
  | .LinkTwoWay => "glue.core.link_helpers.LinkTwoWay" | .LinkAligned => "glue.core.link_helpers.LinkAligned"
  | .PartialResult => "glue.core.link_helpers.PartialResult"
  | .slice => "builtins.slice" | .tuple => "builtins.tuple" | .list => "builtins.list"

def Tag.all : List Tag :=
  [.RectangularROI, .RangeROI, .XRangeROI, .YRangeROI, .CircularROI, .CircularAnnulusROI, .EllipticalROI,
   .PolygonalROI, .Path, .CategoricalROI, .Projected3dROI,
   .SubsetState, .RangeSubsetState, .MultiRangeSubsetState, .InequalitySubsetState, .CategorySubsetState,
   .ElementSubsetState, .SliceSubsetState, .MaskSubsetState, .RoiSubsetState, .RoiSubsetStateNd, .RoiSubsetState3d,
   .CategoricalROISubsetState, .CategoricalROISubsetState2D, .CategoricalMultiRangeSubsetState,
   .AndState, .OrState, .XorState, .InvertState, .MultiOrState, .FloodFillSubsetState,
   .AffineCoordinates, .IdentityCoordinates, .Coordinates,
   .LinkCollection, .MultiLink, .LinkSame, .LinkSameWithUnits, .LinkTwoWay, .LinkAligned, .PartialResult,
   .slice, .tuple, .list]

/-- an object of a class of the table: the class and its fields -/
inductive Body where
  | rect (f : RectF) | range (f : RangeF) | xrange (f : XYRangeF) | yrange (f : XYRangeF) | circ (f : CircF)
  | annulus (f : AnnulusF) | ellipse (f : EllipseF) | polygon (f : VertexF) | path (f : VertexF)
  | catRoi (f : CatRoiF) | proj3d (f : Proj3dF)
  | baseState | rangeSt (f : RangeStF) | multiRange (f : MultiRangeF) | ineq (f : IneqF) | category (f : CategoryF)
  | element (f : ElementF) | sliceSt (f : SliceF) | mask (f : MaskF) | roiSt (f : RoiStF) | roiNd (f : RoiNdF)
  | roi3d (f : Roi3dF) | catRoiSt (f : CatRoiStF) | catRoi2d (f : CatRoi2dF) | catMultiRange (f : CatMultiRangeF)
  | composite (f : CompositeF) | multiOr (f : MultiOrF) | floodFill (f : FloodFillF)
  | affine (f : AffineF) | identityCoords (f : IdentityF) | baseCoords
  | linkColl (f : LinkCollF) | multiLink (f : MultiLinkF) | linkSame (f : CidPairF) | linkUnits (f : CidPairF)
  | linkTwoWay (f : TwoWayF) | linkAligned (f : DataPairF) | partialResult (f : PartialF)
  | pySlice (f : SliceObjF) | pyTuple (f : ContentsF) | pyList (f : ContentsF)
  deriving DecidableEq, Repr

def CompKind.tag : CompKind → Tag
  | .and_ => .AndState | .or_ => .OrState | .xor => .XorState | .invert => .InvertState

/-- `type(obj)` -/
def Body.tag : Body → Tag
  | .rect _ => .RectangularROI | .range _ => .RangeROI | .xrange _ => .XRangeROI | .yrange _ => .YRangeROI
  | .circ _ => .CircularROI | .annulus _ => .CircularAnnulusROI | .ellipse _ => .EllipticalROI
  | .polygon _ => .PolygonalROI | .path _ => .Path | .catRoi _ => .CategoricalROI | .proj3d _ => .Projected3dROI
  | .baseState => .SubsetState | .rangeSt _ => .RangeSubsetState | .multiRange _ => .MultiRangeSubsetState
  | .ineq _ => .InequalitySubsetState | .category _ => .CategorySubsetState | .element _ => .ElementSubsetState
  | .sliceSt _ => .SliceSubsetState | .mask _ => .MaskSubsetState | .roiSt _ => .RoiSubsetState
  | .roiNd _ => .RoiSubsetStateNd | .roi3d _ => .RoiSubsetState3d | .catRoiSt _ => .CategoricalROISubsetState
  | .catRoi2d _ => .CategoricalROISubsetState2D | .catMultiRange _ => .CategoricalMultiRangeSubsetState
  | .composite f => f.kind.tag | .multiOr _ => .MultiOrState | .floodFill _ => .FloodFillSubsetState
  | .affine _ => .AffineCoordinates | .identityCoords _ => .IdentityCoordinates | .baseCoords => .Coordinates
  | .linkColl _ => .LinkCollection | .multiLink _ => .MultiLink | .linkSame _ => .LinkSame
  | .linkUnits _ => .LinkSameWithUnits | .linkTwoWay _ => .LinkTwoWay | .linkAligned _ => .LinkAligned
  | .partialResult _ => .PartialResult | .pySlice _ => .slice | .pyTuple _ => .tuple | .pyList _ => .list

/-- the saver `GlueSerializer._dispatch` selects for the object (validated against the tree by the
generated table obligations `dispatch_matches_observed` and by the `rec` family) -/
def Body.saverRec : Body → Rec
  | .rect f => RectangularROI.encode f | .range f => RangeROI.encode f
  | .xrange f => XYRangeROI.encode .x f | .yrange f => XYRangeROI.encode .y f
  | .circ f => CircularROI.encode f | .annulus f => CircularAnnulusROI.encode f | .ellipse f => EllipticalROI.encode f
  | .polygon f => VertexROI.encode f | .path f => VertexROI.encode f | .catRoi f => CategoricalROI.encode f
  | .proj3d f => Projected3dROI.encode f
  | .baseState => [] | .rangeSt f => RangeSubsetState.encode f | .multiRange f => MultiRangeSubsetState.encode f
  | .ineq f => InequalitySubsetState.encode f | .category f => CategorySubsetState.encode f
  | .element f => ElementSubsetState.encode f | .sliceSt f => SliceSubsetState.encode f
  | .mask f => MaskSubsetState.encode f | .roiSt f => RoiSubsetState.encode f | .roiNd f => RoiSubsetStateNd.encode f
  | .roi3d f => RoiSubsetState3d.encode f | .catRoiSt f => CategoricalROISubsetState.encode f
  | .catRoi2d f => CategoricalROISubsetState2D.encode f | .catMultiRange f => CategoricalMultiRangeSubsetState.encode f
  | .composite f => CompositeSubsetState.encode f | .multiOr f => MultiOrState.encode f
  | .floodFill f => FloodFillSubsetState.encode f
  | .affine f => AffineCoordinates.encode f | .identityCoords f => IdentityCoordinates.encode f | .baseCoords => []
  | .linkColl f => LinkCollection.encode f | .multiLink f => MultiLink.encode f | .linkSame f => LinkSame.encode f
  | .linkUnits f => LinkSame.encode f | .linkTwoWay f => LinkTwoWay.encode f | .linkAligned f => LinkAligned.encode f
  | .partialResult f => PartialResult.encode f
  | .pySlice f => PySlice.encode f | .pyTuple f => PyTuple.encode f | .pyList f => PyList.encode f

/-- a record as `GlueSerializer.do` returns it: the saver's `dict` plus `_type` -/
structure TRec where
  typ : Tag
  dict : Rec
  deriving Repr

/-- `GlueSerializer.do(obj)` -/
def Body.encode (b : Body) : TRec := { typ := b.tag, dict := b.saverRec }

/-- `GlueUnSerializer._dispatch(rec)(rec, context)`: the loader selected by `rec['_type']` -/
def Body.decode (t : TRec) : Option Body :=
  match t.typ with
  | .RectangularROI => (RectangularROI.decode t.dict).map .rect
  | .RangeROI => (RangeROI.decode t.dict).map .range
  | .XRangeROI => (XYRangeROI.decode t.dict).map .xrange
  | .YRangeROI => (XYRangeROI.decode t.dict).map .yrange
  | .CircularROI => (CircularROI.decode t.dict).map .circ
  | .CircularAnnulusROI => (CircularAnnulusROI.decode t.dict).map .annulus
  | .EllipticalROI => (EllipticalROI.decode t.dict).map .ellipse
  | .PolygonalROI => (VertexROI.decode t.dict).map .polygon
  | .Path => (VertexROI.decode t.dict).map .path
  | .CategoricalROI => (CategoricalROI.decode t.dict).map .catRoi
  | .Projected3dROI => (Projected3dROI.decode t.dict).map .proj3d
  | .SubsetState => some .baseState
  | .RangeSubsetState => (RangeSubsetState.decode t.dict).map .rangeSt
  | .MultiRangeSubsetState => (MultiRangeSubsetState.decode t.dict).map .multiRange
  | .InequalitySubsetState => (InequalitySubsetState.decode t.dict).map .ineq
  | .CategorySubsetState => (CategorySubsetState.decode t.dict).map .category
  | .ElementSubsetState => (ElementSubsetState.decode t.dict).map .element
  | .SliceSubsetState => (SliceSubsetState.decode t.dict).map .sliceSt
  | .MaskSubsetState => (MaskSubsetState.decode t.dict).map .mask
  | .RoiSubsetState => (RoiSubsetState.decode t.dict).map .roiSt
  | .RoiSubsetStateNd => (RoiSubsetStateNd.decode t.dict).map .roiNd
  | .RoiSubsetState3d => (RoiSubsetState3d.decode t.dict).map .roi3d
  | .CategoricalROISubsetState => (CategoricalROISubsetState.decode t.dict).map .catRoiSt
  | .CategoricalROISubsetState2D => (CategoricalROISubsetState2D.decode t.dict).map .catRoi2d
  | .CategoricalMultiRangeSubsetState => (CategoricalMultiRangeSubsetState.decode t.dict).map .catMultiRange
  | .AndState => (CompositeSubsetState.decode .and_ t.dict).map .composite
  | .OrState => (CompositeSubsetState.decode .or_ t.dict).map .composite
  | .XorState => (CompositeSubsetState.decode .xor t.dict).map .composite
  | .InvertState => (CompositeSubsetState.decode .invert t.dict).map .composite
  | .MultiOrState => (MultiOrState.decode t.dict).map .multiOr
  | .FloodFillSubsetState => (FloodFillSubsetState.decode t.dict).map .floodFill
  | .AffineCoordinates => (AffineCoordinates.decode t.dict).map .affine
  | .IdentityCoordinates => (IdentityCoordinates.decode t.dict).map .identityCoords
  | .Coordinates => some .baseCoords
  | .LinkCollection => (LinkCollection.decode t.dict).map .linkColl
  | .MultiLink => (MultiLink.decode t.dict).map .multiLink
  | .LinkSame => (LinkSame.decode t.dict).map .linkSame
  | .LinkSameWithUnits => (LinkSame.decode t.dict).map .linkUnits
  | .LinkTwoWay => (LinkTwoWay.decode t.dict).map .linkTwoWay
  | .LinkAligned => (LinkAligned.decode t.dict).map .linkAligned
  | .PartialResult => (PartialResult.decode t.dict).map .partialResult
  | .slice => (PySlice.decode t.dict).map .pySlice
  | .tuple => (PyList.decode t.dict).map .pyTuple
  | .list => (PyList.decode t.dict).map .pyList

/-! ### from a typed object to the framework's object: what the pair hands to the context

The framework model (`Model/C02Serial.lean`) sees an object as the list of values its saver passes
through `context.id` / `context.do` (and its loader reads back through `context.object`), in order.
Here that list is *read off the transcribed record*: every leaf of the saver's `dict`, in order;
raw strings (`ori`, `op`, `data_uuid`) never meet the context and are not part of it. -/

mutual
  def leaves : JV → List JV
    | .list xs => leavesL xs
    | j => [j]
  def leavesL : List JV → List JV
    | [] => []
    | x :: xs => leaves x ++ leavesL xs
end

/-- the framework value of a leaf -/
def valOfLeaf : JV → Option Val
  | .lit n => some (.lit n)
  | .str s => if isLiteralStr s then some (.str (s.drop 4)) else none
  | .name o => some (.ref o)
  | .inl o => some (.own o)
  | .list _ => none

/-- when the loader resolves the value stored under key `k`: `SliceSubsetState` keeps `reference_data`
un-resolved until `__setgluestate_callback__`, everything else is read by the (plain) loader -/
def phaseOf (t : Tag) (k : String) : Phase :=
  if t = .SliceSubsetState ∧ k = "reference_data" then .cb else .early

def Body.fields (b : Body) : List Field :=
  b.saverRec.flatMap fun kv => (leaves kv.2).filterMap fun j => (valOfLeaf j).map fun v => ⟨phaseOf b.tag kv.1, v⟩

def Tag.idx (t : Tag) : Nat := Tag.all.idxOf t

structure TObj where
  /-- `obj.label` or `type(obj).__name__` -/
  label : Str
  body : Body
  deriving Repr

abbrev TGraph := List TObj

/-- the framework heap of a graph of typed objects (object identities = positions) -/
def erase (g : TGraph) : Heap :=
  g.map fun t => { cls := t.body.tag.idx, label := t.label, fields := t.body.fields }

end GlueVerif.C02.Cls
